From Coq Require Import String ZArith List Bool Lia.
From FcpV Require Import Base.Bits Base.BitsProofs Schema.Types Layout.Packed Layout.PackedProofs Dbc.DbcSem Dbc.DbcProofs CanC.CModel.
Import ListNotations.
Open Scope Z_scope.

(* ---------- bit-level lemmas ---------- *)
Lemma land_mask x l : 0 <= l -> Z.land x (mask l) = x mod 2 ^ l.
Proof. intros Hl. unfold mask. rewrite <- Z.land_ones by exact Hl. f_equal. rewrite Z.ones_equiv. lia. Qed.

Lemma testbit_small a i : 0 <= a < 2 ^ i -> 0 <= i -> Z.testbit a i = false.
Proof.
  intros Ha Hi. destruct (Z.eq_dec a 0) as [->|Hne]; [apply Z.bits_0|].
  apply Z.bits_above_log2; [lia|]. apply Z.log2_lt_pow2; lia.
Qed.

Lemma lor_disjoint a b k : 0 <= k -> 0 <= a < 2 ^ k -> 0 <= b -> Z.lor a (b * 2 ^ k) = a + b * 2 ^ k.
Proof.
  intros Hk Ha Hb.
  assert (Hland : Z.land a (b * 2 ^ k) = 0); [|now rewrite (Z.add_nocarry_lxor _ _ Hland), (Z.lxor_lor _ _ Hland)].
  apply Z.bits_inj'. intros i Hi. rewrite Z.land_spec, Z.bits_0.
  destruct (Z.lt_ge_cases i k) as [Hlt|Hge].
  - rewrite Z.mul_pow2_bits_low by lia. apply andb_false_r.
  - rewrite testbit_small; [reflexivity| |exact Hi]. split; [lia|]. eapply Z.lt_le_trans; [apply Ha|]. apply Z.pow_le_mono_r; lia.
Qed.

Lemma testbit_top bf len : 1 <= len -> 0 <= bf < 2 ^ len -> Z.testbit bf (len - 1) = (2 ^ (len - 1) <=? bf).
Proof.
  intros Hl Hb. rewrite Z.testbit_odd, Z.shiftr_div_pow2 by lia.
  assert (Hp : 0 < 2 ^ (len - 1)) by (apply Z.pow_pos_nonneg; lia).
  assert (H2 : 2 ^ len = 2 * 2 ^ (len - 1)) by (replace len with (Z.succ (len - 1)) at 1 by lia; now rewrite Z.pow_succ_r by lia).
  destruct (Z.leb_spec (2 ^ (len - 1)) bf) as [Hge|Hlt].
  - replace (bf / 2 ^ (len - 1)) with 1; [reflexivity|]. apply Z.div_unique with (r := bf - 2 ^ (len - 1)); lia.
  - rewrite Z.div_small by lia. reflexivity.
Qed.

(* ---------- what a supported signal contributes to the word ---------- *)
Definition contrib (p : piece) (v : Z) : Z := (v mod 2 ^ plen p) * 2 ^ pstart p.

Definition piece_fits (p : piece) : Prop := 0 <= pstart p /\ 0 <= plen p /\ pstart p + plen p <= 64.

Lemma std_width_cases n : std_width n = true -> Z.of_nat n = 8 \/ Z.of_nat n = 16 \/ Z.of_nat n = 32 \/ Z.of_nat n = 64.
Proof.
  unfold std_width. intros H. repeat (apply orb_true_iff in H; destruct H as [H|H]); apply Nat.eqb_eq in H; subst; cbn; auto.
Qed.

Lemma pow_le_64 s l : 0 <= s -> 0 <= l -> s + l <= 64 -> 2 ^ l * 2 ^ s <= 2 ^ 64.
Proof. intros. rewrite <- Z.pow_add_r by lia. apply Z.pow_le_mono_r; lia. Qed.

Lemma contrib_bound p v : piece_fits p -> 0 <= contrib p v < 2 ^ 64.
Proof.
  intros (Hs & Hl & Hsl). unfold contrib.
  assert (0 < 2 ^ plen p) by (apply Z.pow_pos_nonneg; lia). assert (0 < 2 ^ pstart p) by (apply Z.pow_pos_nonneg; lia).
  pose proof (Z.mod_pos_bound v (2 ^ plen p) ltac:(lia)). pose proof (pow_le_64 _ _ Hs Hl Hsl). nia.
Qed.

(* ---------- bit strings as numbers ---------- *)
Lemma Z_of_bits_app a b : Z_of_bits (a ++ b) = Z_of_bits a + 2 ^ Z.of_nat (length a) * Z_of_bits b.
Proof.
  induction a as [|x a IH]; [cbn [app Z_of_bits length]; change (Z.of_nat 0) with 0; rewrite Z.pow_0_r; lia|].
  cbn [app Z_of_bits length]. rewrite IH, Nat2Z.inj_succ, Z.pow_succ_r by lia. lia.
Qed.

Lemma Z_of_bits_nonneg l : 0 <= Z_of_bits l.
Proof. pose proof (Z_of_bits_range l). lia. Qed.

Lemma Z_of_bits_shift l : forall s, Z_of_bits l / 2 ^ Z.of_nat s = Z_of_bits (skipn s l).
Proof.
  intros s. revert l. induction s as [|s IH]; intros l; [cbn; now rewrite Z.div_1_r|].
  destruct l as [|b l]; [cbn [skipn Z_of_bits]; apply Z.div_0_l; apply Z.pow_nonzero; lia|].
  cbn [skipn Z_of_bits]. rewrite Nat2Z.inj_succ, Z.pow_succ_r by lia.
  rewrite <- Z.div_div by (try apply Z.pow_pos_nonneg; lia).
  replace ((Z.b2z b + 2 * Z_of_bits l) / 2) with (Z_of_bits l); [apply IH|].
  pose proof (b2z_range b). apply Z.div_unique with (r := Z.b2z b); lia.
Qed.

Lemma Z_of_bits_trunc l : forall n, Z_of_bits l mod 2 ^ Z.of_nat n = Z_of_bits (firstn n l).
Proof.
  intros n. revert l. induction n as [|n IH]; intros l; [cbn; now rewrite Z.mod_1_r|].
  destruct l as [|b l]; [cbn [firstn Z_of_bits]; apply Z.mod_0_l; apply Z.pow_nonzero; lia|].
  cbn [firstn Z_of_bits]. rewrite <- IH, Nat2Z.inj_succ, Z.pow_succ_r by lia.
  pose proof (b2z_range b). assert (Hp : 0 < 2 ^ Z.of_nat n) by (apply Z.pow_pos_nonneg; lia).
  rewrite Z.rem_mul_r by lia.
  replace ((Z.b2z b + 2 * Z_of_bits l) mod 2) with (Z.b2z b) by (apply Z.mod_unique_pos with (q := Z_of_bits l); lia).
  replace ((Z.b2z b + 2 * Z_of_bits l) / 2) with (Z_of_bits l) by (apply Z.div_unique with (r := Z.b2z b); lia).
  reflexivity.
Qed.

Lemma extract_is_le_extract l s n :
  Z.land (Z_of_bits l / 2 ^ Z.of_nat s) (mask (Z.of_nat n)) = le_extract s n l.
Proof. rewrite land_mask by lia. rewrite Z_of_bits_shift, Z_of_bits_trunc. reflexivity. Qed.

(* ---------- what a supported signal contributes to the word ---------- *)
Definition sig_ok (p : piece) (v : Z) : Prop :=
  piece_fits p /\ c_supported_piece p = true /\ c_in_range p v = true.

Lemma two_pow_split c l : 0 <= l <= c -> 2 ^ c = 2 ^ (c - l) * 2 ^ l.
Proof. intros H. rewrite <- Z.pow_add_r by lia. f_equal. lia. Qed.

Lemma mod_mod_le x l c : 0 <= l <= c -> (x mod 2 ^ c) mod 2 ^ l = x mod 2 ^ l.
Proof.
  intros H. rewrite (two_pow_split c l H). rewrite Z.mul_comm.
  rewrite Z.rem_mul_r by (try apply Z.pow_nonzero; try apply Z.pow_pos_nonneg; lia).
  rewrite Z.mul_comm, Z.mod_add by (apply Z.pow_nonzero; lia). apply Z.mod_mod. apply Z.pow_nonzero; lia.
Qed.

Lemma sig_ok_little p v : sig_ok p v -> is_big p = false.
Proof. intros (_ & Hsup & _). unfold c_supported_piece in Hsup. apply andb_true_iff in Hsup. destruct Hsup as [Hb _]. now apply negb_true_iff in Hb. Qed.

Lemma enc_is_contrib p v : sig_ok p v -> c_encode_signal_e (kind_of p) (is_big p) (pstart p) (plen p) v = contrib p v.
Proof.
  intros Hok. unfold c_encode_signal_e. rewrite (sig_ok_little p v Hok). revert Hok.
  intros ((Hs & Hl & Hsl) & Hsup & Hin). unfold c_supported_piece in Hsup. apply andb_true_iff in Hsup. destruct Hsup as [_ Hsup].
  unfold c_supported_kind, c_in_range in *. unfold contrib.
  assert (Hpl : 0 < 2 ^ plen p) by (apply Z.pow_pos_nonneg; lia).
  assert (Hps : 0 < 2 ^ pstart p) by (apply Z.pow_pos_nonneg; lia).
  pose proof (pow_le_64 _ _ Hs Hl Hsl) as H64.
  destruct (kind_of p) as [c|c| | | |] eqn:Ek; try discriminate; unfold c_encode_signal, u64.
  - (* unsigned / enum *)
    apply Z.leb_le in Hsup. apply andb_true_iff in Hin. destruct Hin as [H0 H1]. apply Z.leb_le in H0. apply Z.ltb_lt in H1.
    rewrite land_mask by lia. rewrite mod_mod_le by lia.
    apply Z.mod_small. pose proof (Z.mod_pos_bound v (2 ^ plen p) ltac:(lia)). nia.
  - (* signed, length = carrier *)
    apply Z.eqb_eq in Hsup. rewrite land_mask by lia. rewrite mod_mod_le by lia.
    apply Z.mod_small. pose proof (Z.mod_pos_bound v (2 ^ plen p) ltac:(lia)). nia.
  - (* f32 at bit 0 *)
    apply andb_true_iff in Hsup. destruct Hsup as [E0 E32]. apply Z.eqb_eq in E0, E32. rewrite E0, E32 in *.
    rewrite Z.pow_0_r, !Z.mul_1_r.
    apply andb_true_iff in Hin. destruct Hin as [H0 H1]. apply Z.leb_le in H0. apply Z.ltb_lt in H1.
    rewrite land_mask by lia. rewrite !Z.mod_mod by lia. reflexivity.
  - (* f64 = the whole word *)
    apply andb_true_iff in Hsup. destruct Hsup as [E0 E64]. apply Z.eqb_eq in E0, E64. rewrite E0, E64 in *.
    rewrite Z.pow_0_r, !Z.mul_1_r. rewrite land_mask by lia. rewrite !Z.mod_mod by lia. reflexivity.
Qed.

(* ---------- the frame word is the layout packing ---------- *)
Lemma fold_lor_pack : forall ps vs s e acc,
  contiguous s ps e -> 0 <= s -> e <= 64 -> length vs = length ps ->
  Forall2 sig_ok ps vs -> 0 <= acc < 2 ^ s ->
  fold_left Z.lor (map (fun sv => let '(k, b, st, l) := fst sv in c_encode_signal_e k b st l (snd sv)) (combine (map sig_of ps) vs)) acc
  = acc + 2 ^ s * Z_of_bits (pack ps vs).
Proof.
  induction ps as [|p ps IH]; intros vs s e acc Hc Hs He Hlen Hok Hacc.
  - destruct vs; [|discriminate]. cbn. lia.
  - destruct vs as [|v vs]; [discriminate|]. inversion Hok as [|? ? ? ? Hp Hok']; subst.
    cbn in Hc. destruct Hc as [Hst Hc]. cbn [map combine fold_left fst snd sig_of pack].
    rewrite (enc_is_contrib p v Hp). destruct Hp as ((Hps & Hpl & Hpsl) & _ & _).
    unfold contrib. rewrite Hst.
    assert (Hpl' : 0 < 2 ^ plen p) by (apply Z.pow_pos_nonneg; lia).
    assert (Hss : 0 < 2 ^ s) by (apply Z.pow_pos_nonneg; lia).
    pose proof (Z.mod_pos_bound v (2 ^ plen p) ltac:(lia)) as Hm.
    rewrite lor_disjoint by lia.
    rewrite (IH vs (s + plen p) e _ Hc ltac:(lia) He ltac:(cbn in Hlen; lia) Hok').
    + rewrite Z_of_bits_app, bits_of_Z_length, Z_of_bits_of_Z, !Z2Nat.id by lia.
      rewrite Z.pow_add_r by lia. ring.
    + rewrite Z.pow_add_r by lia. nia.
Qed.

Theorem c_word_is_packing ps vs e :
  contiguous 0 ps e -> e <= 64 -> length vs = length ps -> Forall2 sig_ok ps vs ->
  c_word (map sig_of ps) vs = Z_of_bits (pack ps vs).
Proof.
  intros Hc He Hl Hok. unfold c_word.
  assert (H0 : 0 <= 0 < 2 ^ 0) by (cbn; lia).
  rewrite (fold_lor_pack ps vs 0 e 0 Hc ltac:(lia) He Hl Hok H0). rewrite Z.pow_0_r. lia.
Qed.

(* ---------- decoding a field of that word gives the member back ---------- *)
Lemma cast_int_id c v : 0 < c -> - 2 ^ (c - 1) <= v < 2 ^ (c - 1) -> cast_int c (v mod 2 ^ c) = v.
Proof.
  intros Hc Hv. unfold cast_int. rewrite Z.mod_mod by (apply Z.pow_nonzero; lia).
  assert (H2 : 2 ^ c = 2 * 2 ^ (c - 1)) by (replace c with (Z.succ (c - 1)) at 1 by lia; now rewrite Z.pow_succ_r by lia).
  assert (Hp : 0 < 2 ^ (c - 1)) by (apply Z.pow_pos_nonneg; lia).
  destruct (Z.lt_ge_cases v 0) as [Hneg|Hpos].
  - assert (E : v mod 2 ^ c = v + 2 ^ c) by (symmetry; apply Z.mod_unique_pos with (q := -1); lia).
    rewrite E. destruct (Z.leb_spec (2 ^ (c - 1)) (v + 2 ^ c)); lia.
  - rewrite Z.mod_small by lia. destruct (Z.leb_spec (2 ^ (c - 1)) v); lia.
Qed.

Lemma sign_conv_spec bf len : 1 <= len <= 64 -> 0 <= bf < 2 ^ len ->
  sign_conv bf len = if 2 ^ (len - 1) <=? bf then bf - 2 ^ len else bf.
Proof.
  intros Hl Hb. unfold sign_conv. rewrite testbit_top by lia.
  destruct (Z.leb_spec (2 ^ (len - 1)) bf) as [Hge|Hlt]; [|reflexivity].
  assert (Hpl : 0 < 2 ^ len) by (apply Z.pow_pos_nonneg; lia).
  assert (H64 : 2 ^ 64 = 2 ^ (64 - len) * 2 ^ len) by (rewrite <- Z.pow_add_r by lia; f_equal; lia).
  assert (Hq : 0 < 2 ^ (64 - len)) by (apply Z.pow_pos_nonneg; lia).
  assert (E : u64 (- 2 ^ len) = (2 ^ (64 - len) - 1) * 2 ^ len).
  { unfold u64. symmetry. apply Z.mod_unique_pos with (q := -1); nia. }
  rewrite E, Z.lor_comm, lor_disjoint by lia.
  unfold cast_int. set (q := 2 ^ (64 - len)) in *. set (P := 2 ^ len) in *.
  assert (Hsmall : 0 <= bf + (q - 1) * P < 2 ^ 64) by nia.
  rewrite Z.mod_small by exact Hsmall.
  assert (H63 : 2 ^ (64 - 1) * 2 = 2 ^ 64) by reflexivity.
  destruct (Z.leb_spec (2 ^ (64 - 1)) (bf + (q - 1) * P)) as [_|Hc]; [nia|].
  exfalso. assert (2 ^ (len - 1) * 2 = P) by (unfold P; replace len with (Z.succ (len - 1)) at 2 by lia; rewrite Z.pow_succ_r by lia; lia). nia.
Qed.

Lemma dec_of_field p v word : sig_ok p v ->
  Z.land (word / 2 ^ pstart p) (mask (plen p)) = v mod 2 ^ plen p ->
  (kind_of p = KF64 -> word = v) ->
  c_decode_signal_e (kind_of p) (is_big p) (pstart p) (plen p) word = v.
Proof.
  intros Hok. unfold c_decode_signal_e. rewrite (sig_ok_little p v Hok). revert Hok.
  intros ((Hs & Hl & Hsl) & Hsup & Hin) Hbf H64. unfold c_supported_piece in Hsup. apply andb_true_iff in Hsup. destruct Hsup as [_ Hsup].
  unfold c_decode_signal, c_supported_kind, c_in_range in *. rewrite Hbf.
  assert (Hpl : 0 < 2 ^ plen p) by (apply Z.pow_pos_nonneg; lia).
  destruct (kind_of p) as [c|c| | | |] eqn:Ek; try discriminate.
  - apply Z.leb_le in Hsup. apply andb_true_iff in Hin. destruct Hin as [H0 H1]. apply Z.leb_le in H0. apply Z.ltb_lt in H1.
    rewrite (Z.mod_small v) by lia. apply Z.mod_small. split; [lia|]. eapply Z.lt_le_trans; [exact H1|]. apply Z.pow_le_mono_r; lia.
  - apply Z.eqb_eq in Hsup. rewrite Hsup in *. apply andb_true_iff in Hin. destruct Hin as [H0 H1]. apply Z.leb_le in H0. apply Z.ltb_lt in H1.
    assert (Hc : 0 < c).
    { destruct (Z.lt_ge_cases 0 c); [assumption|]. exfalso. assert (Ec : c = 0) by lia. rewrite Ec in H0, H1. assert (E2 : 2 ^ (0 - 1) = 0) by reflexivity. rewrite E2 in H0, H1. lia. }
    destruct (Z.eqb_spec c 64) as [->|N64]; [now apply cast_int_id|].
    assert (H2 : 2 ^ c = 2 * 2 ^ (c - 1)) by (replace c with (Z.succ (c - 1)) at 1 by lia; now rewrite Z.pow_succ_r by lia).
    assert (Hp : 0 < 2 ^ (c - 1)) by (apply Z.pow_pos_nonneg; lia).
    rewrite sign_conv_spec by (try apply Z.mod_pos_bound; lia).
    destruct (Z.lt_ge_cases v 0) as [Hneg|Hpos].
    + assert (E : v mod 2 ^ c = v + 2 ^ c) by (symmetry; apply Z.mod_unique_pos with (q := -1); lia).
      rewrite E. destruct (Z.leb_spec (2 ^ (c - 1)) (v + 2 ^ c)); [|lia].
      replace (v + 2 ^ c - 2 ^ c) with v by lia. rewrite <- (cast_int_id c v Hc ltac:(lia)) at 2. unfold cast_int. now rewrite Z.mod_mod by lia.
    + rewrite Z.mod_small by lia. destruct (Z.leb_spec (2 ^ (c - 1)) v); [lia|].
      rewrite <- (cast_int_id c v Hc ltac:(lia)) at 2. unfold cast_int. now rewrite Z.mod_mod by lia.
  - apply andb_true_iff in Hsup. destruct Hsup as [_ E32]. apply Z.eqb_eq in E32. rewrite E32 in *.
    apply andb_true_iff in Hin. destruct Hin as [H0 H1]. apply Z.leb_le in H0. apply Z.ltb_lt in H1.
    rewrite Z.mod_mod by lia. apply Z.mod_small. lia.
  - now apply H64.
Qed.

Lemma nth_error_eq_ext {A} (l l' : list A) : (forall n, nth_error l n = nth_error l' n) -> l = l'.
Proof.
  revert l'. induction l as [|x l IH]; intros [|y l'] H; [reflexivity|specialize (H 0%nat); discriminate|specialize (H 0%nat); discriminate|].
  pose proof (H 0%nat) as H0. cbn in H0. inversion H0; subst. f_equal. apply IH. intros n. exact (H (S n)).
Qed.

Lemma Forall2_nth_error {A B} (R : A -> B -> Prop) l l' : Forall2 R l l' ->
  forall n a, nth_error l n = Some a -> exists b, nth_error l' n = Some b /\ R a b.
Proof.
  induction 1 as [|x y l l' Hxy _ IH]; intros n a Hn; [destruct n; discriminate|].
  destruct n as [|n]; cbn in *; [inversion Hn; subst; eauto|eauto].
Qed.

Lemma pack_length : forall ps vs s e, contiguous s ps e -> Forall (fun p => 0 <= plen p) ps -> length vs = length ps ->
  Z.of_nat (length (pack ps vs)) = e - s.
Proof.
  induction ps as [|p ps IH]; intros vs s e Hc Hn Hl; destruct vs as [|v vs]; try discriminate; cbn in *; [lia|].
  destruct Hc as [Hs Hc]. inversion Hn; subst. rewrite app_length, bits_of_Z_length, Nat2Z.inj_add, Z2Nat.id by lia.
  rewrite (IH vs _ e Hc) by (auto; lia). lia.
Qed.

(* the frame of can_encode_msg carries the layout packing of the value, and
   can_decode_msg maps it back to the value: every message of supported signals
   that tile at most 64 bits, every in-range value *)
Theorem c_roundtrip_lemma fid ps vs e :
  contiguous 0 ps e -> e <= 64 -> Forall2 sig_ok ps vs ->
  cf_word (c_encode_msg fid ps vs) = Z_of_bits (pack ps vs) /\
  c_decode_msg ps (c_encode_msg fid ps vs) = vs.
Proof.
  intros Hc He Hok.
  assert (Hlen : length vs = length ps) by (clear -Hok; induction Hok; cbn; congruence).
  assert (Hnn : Forall (fun p => 0 <= plen p) ps).
  { clear -Hok. induction Hok as [|p v ps vs Hp _ IH]; constructor; [|exact IH]. destruct Hp as ((_ & H & _) & _). exact H. }
  pose proof (c_word_is_packing ps vs e Hc He Hlen Hok) as Hw.
  split; [exact Hw|]. unfold c_decode_msg, c_encode_msg. cbn [cf_word]. rewrite Hw.
  apply nth_error_eq_ext. intros n. rewrite nth_error_map.
  destruct (nth_error ps n) as [p|] eqn:Ep; cbn [option_map].
  - destruct (Forall2_nth_error _ _ _ Hok n p Ep) as (v & Ev & Hpv). rewrite Ev. f_equal.
    pose proof Hpv as ((Hs & Hl & Hsl) & Hsup & Hin).
    pose proof (le_decodes_packed ps vs 0 e [] n p v Hc Hnn Hlen Ep Ev) as Hle. rewrite Z.sub_0_r, app_nil_r in Hle.
    apply dec_of_field; [exact Hpv| |].
    + rewrite <- (Z2Nat.id (pstart p)) at 1 by lia. rewrite <- (Z2Nat.id (plen p)) at 1 by lia.
      rewrite extract_is_le_extract. exact Hle.
    + intros Hk. unfold c_supported_piece in Hsup. apply andb_true_iff in Hsup. destruct Hsup as [_ Hsup].
      unfold c_supported_kind, c_in_range in Hsup, Hin. rewrite Hk in Hsup, Hin.
      apply andb_true_iff in Hsup. destruct Hsup as [E0 E64]. apply Z.eqb_eq in E0, E64.
      apply andb_true_iff in Hin. destruct Hin as [H0 H1]. apply Z.leb_le in H0. apply Z.ltb_lt in H1.
      rewrite E0, E64 in Hle. unfold le_extract in Hle. cbn [skipn Z.to_nat] in Hle.
      pose proof (pack_length ps vs 0 e Hc Hnn Hlen) as Hpl.
      rewrite firstn_all2 in Hle by lia. rewrite Hle. rewrite E64 in H1. apply Z.mod_small. lia.
  - assert (Hv : nth_error vs n = None) by (apply nth_error_None; rewrite Hlen; now apply nth_error_None). now rewrite Hv.
Qed.

(* id and dlc: an 11-bit id is kept, the dlc is ceil(bits / 8) for a tiling from bit 0 *)
Lemma max_end_tiling : forall ps s e acc, contiguous s ps e -> Forall (fun p => 0 <= plen p) ps -> 0 <= s ->
  acc <= (e + 7) / 8 -> (ps <> [] \/ acc = (e + 7) / 8) ->
  fold_left Z.max (map (fun p => (pstart p + plen p + 7) / 8) ps) acc = (e + 7) / 8.
Proof.
  induction ps as [|p ps IH]; intros s e acc Hc Hn Hs Hacc Hne; cbn in *.
  - destruct Hne as [Hne|Hne]; [contradiction|exact Hne].
  - destruct Hc as [Hst Hc]. inversion Hn; subst.
    pose proof (contiguous_total _ _ _ Hc) as Ht.
    assert (0 <= total_bits ps) by (clear -H2; induction H2 as [|q l Hq _ IHn]; cbn [total_bits fold_right]; [lia|]; fold (total_bits l); lia).
    assert (Hle : (pstart p + plen p + 7) / 8 <= (e + 7) / 8) by (apply Z.div_le_mono; lia).
    apply (IH (pstart p + plen p) e); auto; try lia.
    destruct ps as [|q ps]; [right|left; discriminate]. cbn in Hc. subst e. lia.
Qed.

Theorem c_id_dlc_lemma fid ps vs e :
  0 <= fid < 2048 -> contiguous 0 ps e -> Forall (fun p => 0 <= plen p) ps -> ps <> [] -> e <= 64 ->
  cf_id (c_encode_msg fid ps vs) = fid /\ cf_dlc (c_encode_msg fid ps vs) = (e + 7) / 8.
Proof.
  intros Hf Hc Hn Hne He. unfold c_encode_msg. cbn [cf_id cf_dlc]. split; [apply Z.mod_small; lia|].
  rewrite (max_end_tiling ps 0 e 0 Hc Hn ltac:(lia)); [| |now left].
  - apply Z.mod_small. pose proof (contiguous_total _ _ _ Hc).
    assert (0 <= total_bits ps) by (clear -Hn; induction Hn as [|q l Hq _ IHn]; cbn [total_bits fold_right]; [lia|]; fold (total_bits l); lia).
    split; [apply Z.div_pos; lia|]. assert ((e + 7) / 8 <= (64 + 7) / 8) by (apply Z.div_le_mono; lia). change ((64 + 7) / 8) with 8 in *. lia.
  - pose proof (contiguous_total _ _ _ Hc).
    assert (0 <= total_bits ps) by (clear -Hn; induction Hn as [|q l Hq _ IHn]; cbn [total_bits fold_right]; [lia|]; fold (total_bits l); lia).
    apply Z.div_pos; lia.
Qed.
