(* Model of the generated C CAN code: can_c_writer.py (C type selection),
   can_signal_parser.c (set_bitfield / get_bitfield / sign conversion, all on
   uint64_t) and the templates (word |= ...; *ptr = word; id/dlc bit-fields;
   per-signal decode).  Arithmetic on Z with every C conversion written out.
   No proofs here. *)
From Coq Require Import String Ascii ZArith List Bool.
From FcpV Require Import Base.Bits Schema.Types Layout.Packed.
Import ListNotations.
Open Scope Z_scope.

(* what CanSignal.__post_init__ makes of a layout piece *)
Inductive ckind :=
| KU (c : Z)            (* uintC_t, also enums (carrier = ceil_to_power_of_2(bit_length)) *)
| KI (c : Z)            (* intC_t *)
| KF32 | KF64
| KUnknownType          (* "u4 a;" : data_type is emitted verbatim and is no C type *)
| KKeyError.            (* signed, not 8/16/32/64: type_map["i"] raises *)

Definition std_width (n : nat) : bool := Nat.eqb n 8 || Nat.eqb n 16 || Nat.eqb n 32 || Nat.eqb n 64.

(* ceil_to_power_of_2: 8 for x <= 8, else the next power of two *)
Definition ceil_pow2_8 (x : Z) : Z := if x <=? 8 then 8 else 2 ^ Z.log2_up x.

Definition starts_with_i (s : string) : bool :=
  match s with String a _ => Ascii.eqb a "i"%char | EmptyString => false end.

Definition kind_of (p : piece) : ckind :=
  match pty p with
  | SU n => if std_width n then KU (Z.of_nat n) else KUnknownType
  | SI n => if std_width n then KI (Z.of_nat n) else KKeyError
  | SF32 => KF32
  | SF64 => KF64
  | SEnumRef name =>
      (* is_signed() is `type.name.startswith("i")`: an enum whose NAME begins with the letter i counts as signed, and a signed
         non-built-in type looks up type_map["i"] (finding c-enum-name-i) *)
      if starts_with_i name then KKeyError else KU (ceil_pow2_8 (plen p))
  | _ => KUnknownType
  end.

Definition mask (len : Z) : Z := 2 ^ len - 1.
Definition u64 (x : Z) : Z := x mod 2 ^ 64.

(* can_encode_signal_from_<T>(signal, start, length, 1.0, 0.0, false) for the
   value v of the struct member (an integer; floats as their bit pattern) *)
Definition c_encode_signal (k : ckind) (start len v : Z) : Z :=
  match k with
  | KU c => u64 (Z.land (v mod 2 ^ c) (mask len) * 2 ^ start)
  | KI c => u64 (Z.land (u64 v) (mask len) * 2 ^ start)
  | KF32 => (Z.land (v mod 2 ^ 32) (mask len) * 2 ^ start) mod 2 ^ 32      (* the shift happens in a uint32_t *)
  | KF64 => u64 (Z.land (u64 v) (mask len) * 2 ^ start)
  | _ => 0
  end.

(* ---------- big-endian signals: `endianness: "big"` in the signal block (the spelling can_c_writer.py reads) ---------- *)
Definition is_big (p : piece) : bool :=
  match lookup "endianness"%string (pext p) with
  | Some (XStr s) => String.eqb s "big"
  | _ => false
  end.

(* swap_uint16 / swap_uint32 / swap_uint64 on the low 16 / 32 / 64 bits *)
Definition bswap16 (x : Z) : Z := (x mod 256) * 256 + (x / 256) mod 256.
Definition bswap32 (x : Z) : Z := bswap16 (x mod 65536) * 65536 + bswap16 ((x / 65536) mod 65536).
Definition bswap64 (x : Z) : Z := bswap32 (x mod 2 ^ 32) * 2 ^ 32 + bswap32 ((x / 2 ^ 32) mod 2 ^ 32).

Definition cast_int (c x : Z) : Z := let y := x mod 2 ^ c in if 2 ^ (c - 1) <=? y then y - 2 ^ c else y.

(* swap_bytes_int(val, U<c> / I<c>) with val a uint64_t: the 8-bit cases return val itself, the 16- and 32-bit cases truncate val to
   the C type, swap, and convert the result back to uint64_t (the signed ones sign-extend), the 64-bit cases swap all of val *)
Definition c_swap (signed : bool) (c val : Z) : Z :=
  if c =? 8 then val
  else if c =? 16 then (if signed then u64 (cast_int 16 (bswap16 (val mod 2 ^ 16))) else bswap16 (val mod 2 ^ 16))
  else if c =? 32 then (if signed then u64 (cast_int 32 (bswap32 (val mod 2 ^ 32))) else bswap32 (val mod 2 ^ 32))
  else bswap64 val.

(* can_encode_signal_from_<T>(..., is_big_endian): the swap is applied to the bitfield AFTER set_bitfield has shifted it into place *)
Definition c_encode_signal_e (k : ckind) (big : bool) (start len v : Z) : Z :=
  let bitfield := c_encode_signal k start len v in
  if big then
    match k with
    | KU c => c_swap false c bitfield
    | KI c => c_swap true c bitfield
    | KF32 => bswap32 bitfield
    | KF64 => bswap64 bitfield
    | _ => bitfield
    end
  else bitfield.

Definition c_word (sigs : list (ckind * bool * Z * Z)) (vals : list Z) : Z :=
  fold_left Z.lor (map (fun sv => let '(k, b, s, l) := fst sv in c_encode_signal_e k b s l (snd sv)) (combine sigs vals)) 0.

(* bitfield_sign_conv *)
Definition sign_conv (bf len : Z) : Z :=
  if Z.testbit bf (len - 1) then cast_int 64 (Z.lor (u64 (- 2 ^ len)) bf) else bf.

(* can_decode_signal_as_<T>(msg, start, length, 1.0, 0.0, false) *)
Definition c_decode_signal (k : ckind) (start len word : Z) : Z :=
  let bf := Z.land (word / 2 ^ start) (mask len) in
  match k with
  | KU c => bf mod 2 ^ c
  | KI c => if c =? 64 then cast_int 64 bf else cast_int c (sign_conv bf len)
  | KF32 => bf mod 2 ^ 32
  | KF64 => word                       (* memcpy of the 8 data bytes *)
  | _ => 0
  end.

(* can_decode_signal_as_<T>(msg, start, length, 1.0, 0.0, is_big_endian): the swap sits between the extraction and the return *)
Definition c_decode_signal_e (k : ckind) (big : bool) (start len word : Z) : Z :=
  if big then
    let bf := Z.land (word / 2 ^ start) (mask len) in
    match k with
    | KU c => (c_swap false c (bf mod 2 ^ c)) mod 2 ^ c           (* uintC_t bitfield = (uintC_t)get_bitfield; bitfield = swap(bitfield) *)
    | KI c =>                                                      (* int64_t bitfield = sign_conv(...); bitfield = swap(bitfield); return (intC_t) *)
        let x := if c =? 64 then cast_int 64 bf else sign_conv bf len in
        cast_int c (cast_int 64 (c_swap true c (u64 x)))
    | KF32 => bswap32 (bf mod 2 ^ 32)
    | KF64 => bswap64 word
    | _ => 0
    end
  else c_decode_signal k start len word.

(* the frame: .id is an 11-bit and .dlc a 4-bit bit-field, data = the word, little endian *)
Record cframe := { cf_id : Z; cf_dlc : Z; cf_word : Z }.

Definition sig_of (p : piece) : ckind * bool * Z * Z := (kind_of p, is_big p, pstart p, plen p).

Definition c_encode_msg (frame_id : Z) (ps : list piece) (vals : list Z) : cframe :=
  let last_end := fold_left Z.max (map (fun p => (pstart p + plen p + 7) / 8) ps) 0 in
  {| cf_id := frame_id mod 2048; cf_dlc := last_end mod 16; cf_word := c_word (map sig_of ps) vals |}.

Definition c_decode_msg (ps : list piece) (f : cframe) : list Z :=
  map (fun p => c_decode_signal_e (kind_of p) (is_big p) (pstart p) (plen p) (cf_word f)) ps.

(* the subset that works: little-endian signals of standard integer widths, enums, f64, and f32 at bit 0 *)
Definition c_supported_kind (p : piece) : bool :=
  match kind_of p with
  | KU c => plen p <=? c
  | KI c => plen p =? c
  | KF64 => (pstart p =? 0) && (plen p =? 64)
  | KF32 => (pstart p =? 0) && (plen p =? 32)
  | _ => false
  end.

Definition c_supported_piece (p : piece) : bool := negb (is_big p) && c_supported_kind p.

(* the value a struct member can hold *)
Definition c_in_range (p : piece) (v : Z) : bool :=
  match kind_of p with
  | KU _ | KF32 | KF64 => (0 <=? v) && (v <? 2 ^ plen p)
  | KI c => (- 2 ^ (c - 1) <=? v) && (v <? 2 ^ (c - 1))
  | _ => false
  end.
