(* The token-level printer of parsed items: the inverse direction of
   Front/Parser.v (canonical choices for the optional separators: "|" before
   every parameter, "," between arguments, none trailing, "as" before a
   renamed binding).  No proofs here. *)
From Coq Require Import String Ascii ZArith List Bool.
From FcpV Require Import Layout.Packed Front.Lexer Front.Parser.
Import ListNotations.
Open Scope string_scope.
Open Scope list_scope.

Fixpoint print_val (v : pval) : list token :=
  match v with
  | PVInt z => [TInt z]
  | PVFloat l => [TFloat l]
  | PVStr s => [TStr s]
  | PVArr l =>
      P "[" :: match l with
               | [] => []
               | x :: l' => print_val x ++ flat_map (fun y => P "," :: print_val y) l'
               end ++ [P "]"]
  end.

Definition uname (c : string) (n : nat) : string := (c ++ dec_str n)%string.

Fixpoint print_ty (t : pty) : list token :=
  match t with
  | PTU n => [TId (uname "u" n)]
  | PTI n => [TId (uname "i" n)]
  | PTF32 => [TId "f32"] | PTF64 => [TId "f64"] | PTStr => [TId "str"]
  | PTRef name => [TId name]
  | PTArr t' size => P "[" :: print_ty t' ++ P "," :: print_val size ++ [P "]"]
  | PTDyn t' => P "[" :: print_ty t' ++ [P "]"]
  | PTOpt t' => TId "Optional" :: P "[" :: print_ty t' ++ [P "]"]
  end.

Fixpoint print_args (vs : list pval) : list token :=
  match vs with
  | [] => [P ")"]
  | v :: vs' => match vs' with [] => print_val v ++ [P ")"] | _ => print_val v ++ P "," :: print_args vs' end
  end.

Fixpoint print_params (ps : list pparam) : list token :=
  match ps with
  | [] => [P ","]
  | p :: ps' => P "|" :: TId (pp_name p) :: P "(" :: print_args (pp_args p) ++ print_params ps'
  end.

Definition print_field (f : pfield) : list token :=
  TId (pf_name f) :: P "@" :: print_val (pf_id f) ++ P ":" :: print_ty (pf_type f) ++ print_params (pf_params f).

Definition print_kv (sep : ascii) (kv : string * pval) : list token :=
  TId (fst kv) :: P sep :: print_val (snd kv) ++ [P ","].

Definition print_impl_item (x : pimpl_item) : list token :=
  match x with
  | PExt k v => print_kv ":" (k, v)
  | PSig name fs => TId "signal" :: TId name :: P "{" :: flat_map (print_kv ":") fs ++ [P "}"; P ","]
  end.

Definition print_method (m : pmethod) : list token :=
  [TId "method"; TId (pm_name m); P "("; TId (pm_input m); P ")"; P "@"] ++ print_val (pm_id m) ++
  [TId "returns"; TId (pm_output m); P ","].

Fixpoint print_path (p : list string) : list token :=
  match p with
  | [] => [P ";"]
  | s :: p' => match p' with [] => [TId s; P ";"] | _ => TId s :: P "." :: print_path p' end
  end.

Definition print_item (it : item) : list token :=
  match it with
  | IStruct name fs => TId "struct" :: TId name :: P "{" :: flat_map print_field fs ++ [P "}"]
  | IEnum name vals => TId "enum" :: TId name :: P "{" :: flat_map (print_kv "=") vals ++ [P "}"]
  | IImpl proto ty nm body =>
      TId "impl" :: TId proto :: TId "for" :: TId ty ::
      (match nm with Some n => [TId "as"; TId n] | None => [] end) ++ P "{" :: flat_map print_impl_item body ++ [P "}"]
  | IService name sid ms => TId "service" :: TId name :: P "@" :: print_val sid ++ P "{" :: flat_map print_method ms ++ [P "}"]
  | IDevice name fs => TId "device" :: TId name :: P "{" :: flat_map (print_kv ":") fs ++ [P "}"]
  | IMod path => TId "mod" :: print_path path
  end.

Definition print_tokens (version : string) (its : list item) : list token :=
  TId "version" :: P ":" :: TStr version :: flat_map print_item its.
