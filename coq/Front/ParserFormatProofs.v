(* The optional separators of the grammar do not change the result: every
   token list that spells a well-formed item list - with or without "|"
   before a parameter or before the field's closing comma, with or without
   "," after a parameter argument, with or without the "as" keyword of a
   binding - parses to that item list.  Front/ParserProofs.v is the special
   case of the canonical choices. *)
From Coq Require Import String Ascii ZArith List Bool Lia Arith.
From FcpV Require Import Front.Lexer Front.Parser Front.Printer Front.ParserProofs.
Import ListNotations.
Open Scope string_scope.
Open Scope list_scope.

Definition opt (c : bool) (t : token) : list token := if c then [t] else [].

(* argument list up to and including ")" *)
Inductive args_toks : list pval -> list token -> Prop :=
| AT_nil : args_toks [] [P ")"]
| AT_cons v vs ts c : args_toks vs ts -> args_toks (v :: vs) (print_val v ++ opt c (P ",") ++ ts).

(* parameters up to and including the field's closing "," *)
Inductive params_toks : list pparam -> list token -> Prop :=
| PT_nil c : params_toks [] (opt c (P "|") ++ [P ","])
| PT_cons p ps ats ts c : args_toks (pp_args p) ats -> params_toks ps ts ->
    params_toks (p :: ps) (opt c (P "|") ++ TId (pp_name p) :: P "(" :: ats ++ ts).

Definition field_toks (f : pfield) (ts : list token) : Prop :=
  exists pts, params_toks (pf_params f) pts /\
    ts = TId (pf_name f) :: P "@" :: print_val (pf_id f) ++ P ":" :: print_ty (pf_type f) ++ pts.

(* "as"? identifier? *)
Inductive name_toks : option string -> list token -> Prop :=
| NT_none c : name_toks None (opt c (TId "as"))
| NT_as n : name_toks (Some n) [TId "as"; TId n]
| NT_bare n : String.eqb n "as" = false -> name_toks (Some n) [TId n].

Inductive item_toks : item -> list token -> Prop :=
| IT_struct name fs ftss : Forall2 field_toks fs ftss ->
    item_toks (IStruct name fs) (TId "struct" :: TId name :: P "{" :: concat ftss ++ [P "}"])
| IT_impl proto ty nm body nts : name_toks nm nts ->
    item_toks (IImpl proto ty nm body)
      (TId "impl" :: TId proto :: TId "for" :: TId ty :: nts ++ P "{" :: flat_map print_impl_item body ++ [P "}"])
| IT_other it : (match it with IStruct _ _ | IImpl _ _ _ _ => False | _ => True end) -> item_toks it (print_item it).

(* ------------------------------------------------------------------ *)

Lemma accept_other t ts :
  match ts with x :: _ => tok_eqb x t = false | [] => True end -> accept t ts = ts.
Proof. destruct ts as [|x ts]; [reflexivity|]. cbn. intros ->. reflexivity. Qed.

Lemma accept_same t ts : tok_eqb t t = true -> accept t (t :: ts) = ts.
Proof. cbn. intros ->. reflexivity. Qed.

Lemma args_toks_len vs ts : args_toks vs ts -> (1 <= length ts)%nat.
Proof. induction 1; [cbn; lia|]. rewrite !app_length. lia. Qed.

(* an argument list starts with ")" or with a value: never with "," *)
Lemma args_toks_head vs ts rest : args_toks vs ts ->
  match ts ++ rest with x :: _ => tok_eqb x (P ",") = false | [] => True end.
Proof.
  intros H. destruct H as [|v vs ts c H].
  - reflexivity.
  - rewrite <- app_assoc. destruct v; reflexivity.
Qed.

Lemma args_toks_print : forall vs ts, args_toks vs ts -> forallb wf_val vs = true ->
  forall fuel rest, (length ts <= fuel)%nat -> args fuel (ts ++ rest) = Some (vs, rest).
Proof.
  induction 1 as [|v vs ts c H IH]; intros Hwf fuel rest Hfuel.
  - destruct fuel as [|f]; [cbn in Hfuel; lia|]. reflexivity.
  - cbn [forallb] in Hwf. apply andb_prop in Hwf. destruct Hwf as [Hv Hvs].
    rewrite !app_length in Hfuel. pose proof (args_toks_len _ _ H) as Hlen.
    destruct fuel as [|f]; [pose proof (print_val_nonempty v); lia|].
    rewrite <- app_assoc. rewrite args_value. rewrite value_print by (auto; lia).
    assert (Hacc : accept (P ",") ((opt c (P ",") ++ ts) ++ rest) = ts ++ rest).
    { destruct c; cbn [opt app].
      - reflexivity.
      - apply accept_other. now apply args_toks_head with (vs := vs). }
    rewrite Hacc. rewrite IH by (auto; pose proof (print_val_nonempty v); destruct c; cbn [opt length] in *; lia).
    reflexivity.
Qed.

Lemma params_toks_len ps ts : params_toks ps ts -> (1 <= length ts)%nat.
Proof. destruct 1; rewrite !app_length; cbn [length]; lia. Qed.

Lemma params_toks_print : forall ps ts, params_toks ps ts -> forallb wf_param ps = true ->
  forall fuel rest, (length ts <= fuel)%nat -> params fuel (ts ++ rest) = Some (ps, rest).
Proof.
  induction 1 as [c|p ps ats ts c Ha Hp IH]; intros Hwf fuel rest Hfuel.
  - destruct fuel as [|f]; [destruct c; cbn in Hfuel; lia|]. destruct c; reflexivity.
  - cbn [forallb] in Hwf. apply andb_prop in Hwf. destruct Hwf as [Hp0 Hps].
    rewrite app_length in Hfuel. cbn [length] in Hfuel. rewrite app_length in Hfuel.
    pose proof (args_toks_len _ _ Ha) as Hl1. pose proof (params_toks_len _ _ Hp) as Hl2.
    destruct fuel as [|f]; [lia|].
    assert (Hhead : params (S f) ((opt c (P "|") ++ TId (pp_name p) :: P "(" :: ats ++ ts) ++ rest) =
                    match args (S f) (ats ++ ts ++ rest) with
                    | Some (vs, ts2) =>
                        match params f ts2 with
                        | Some (ps0, ts3) => Some ({| pp_name := pp_name p; pp_args := vs |} :: ps0, ts3)
                        | None => None
                        end
                    | None => None
                    end).
    { destruct c; cbn [opt app]; rewrite <- ?app_assoc; reflexivity. }
    rewrite Hhead. rewrite args_toks_print with (vs := pp_args p) by (auto; lia).
    rewrite IH by (auto; destruct c; cbn [opt length] in *; lia). destruct p; reflexivity.
Qed.

Lemma field_toks_print f ts : field_toks f ts -> wf_field f = true ->
  forall fuel rest, (length ts <= fuel)%nat -> field fuel (ts ++ rest) = Some (f, rest).
Proof.
  intros [pts [Hp ->]] Hwf fuel rest Hfuel. unfold wf_field in Hwf.
  apply andb_prop in Hwf. destruct Hwf as [Hwf Hps]. apply andb_prop in Hwf. destruct Hwf as [Hid Hty].
  cbn [length] in Hfuel. rewrite !app_length in Hfuel. cbn [length] in Hfuel. rewrite app_length in Hfuel.
  cbn [app field]. rewrite <- app_assoc. rewrite number_print by exact Hid.
  cbn [app]. rewrite <- app_assoc. rewrite type_print by (auto; lia).
  rewrite params_toks_print with (ps := pf_params f) by (auto; lia). destruct f; reflexivity.
Qed.

(* one-or-more, spelled element by element *)
Lemma many1_spelled {A : Type} (one : list token -> option (A * list token)) (R : A -> list token -> Prop) :
  forall xs tss, Forall2 R xs tss -> xs <> [] ->
    (forall x ts r, In x xs -> R x ts -> In ts tss -> one (ts ++ r) = Some (x, r)) ->
    (forall x ts r, R x ts -> starts_id (ts ++ r)) ->
    forall fuel rest, (length xs <= fuel)%nat ->
      many1 one fuel (concat tss ++ P "}" :: rest) = Some (xs, rest).
Proof.
  induction 1 as [|x ts xs tss Hx Hxs IH]; intros Hne Hone Hid fuel rest Hfuel; [congruence|].
  destruct fuel as [|f]; [cbn in Hfuel; lia|].
  cbn [concat]. rewrite <- app_assoc. cbn [many1]. rewrite (Hone x ts _ (or_introl eq_refl) Hx (or_introl eq_refl)).
  destruct Hxs as [|x' ts' xs tss Hx' Hxs'].
  - reflexivity.
  - assert (Hrest : many1 one f (concat (ts' :: tss) ++ P "}" :: rest) = Some (x' :: xs, rest)).
    { apply IH; [discriminate| |exact Hid|cbn [length] in *; lia].
      intros y tsy r Hin Hy Hin'. apply Hone; [now right|exact Hy|now right]. }
    pose proof (Hid x' ts' (concat tss ++ P "}" :: rest) Hx') as Hs.
    cbn [concat] in *. rewrite <- app_assoc in *.
    destruct (ts' ++ concat tss ++ P "}" :: rest) as [|t tl] eqn:E; [destruct Hs|].
    destruct t; try destruct Hs. rewrite Hrest. reflexivity.
Qed.

Lemma length_concat_ge (tss : list (list token)) :
  (forall ts, In ts tss -> (1 <= length ts)%nat) -> (length tss <= length (concat tss))%nat.
Proof.
  induction tss as [|ts tss IH]; intros H; cbn [concat length]; [lia|].
  rewrite app_length. pose proof (H ts (or_introl eq_refl)). specialize (IH (fun y Hy => H y (or_intror Hy))). lia.
Qed.

Lemma length_in_concat (tss : list (list token)) ts : In ts tss -> (length ts <= length (concat tss))%nat.
Proof.
  induction tss as [|y tss IH]; intros Hin; [destruct Hin|].
  cbn [concat]. rewrite app_length. destruct Hin as [->|Hin]; [lia|]. specialize (IH Hin). lia.
Qed.

Lemma Forall2_in_r {A B : Type} (R : A -> B -> Prop) xs ys y :
  Forall2 R xs ys -> In y ys -> exists x, In x xs /\ R x y.
Proof.
  induction 1 as [|x0 y0 xs ys H0 H IH]; intros Hin; [destruct Hin|].
  destruct Hin as [->|Hin]; [exists x0; split; [now left|exact H0]|].
  destruct (IH Hin) as [x [Hx Hr]]. exists x. split; [now right|exact Hr].
Qed.

Lemma Forall2_len {A B : Type} (R : A -> B -> Prop) xs ys : Forall2 R xs ys -> length xs = length ys.
Proof. induction 1; cbn [length]; congruence. Qed.

Lemma field_toks_len f ts : field_toks f ts -> (1 <= length ts)%nat.
Proof. intros [pts [_ ->]]. cbn [length]. lia. Qed.

Lemma one_item_impl fuel proto ty nm nts ts3 : name_toks nm nts ->
  one_item fuel (TId "impl" :: TId proto :: TId "for" :: TId ty :: nts ++ P "{" :: ts3) =
  match many1 (impl_item fuel) fuel ts3 with Some (b, ts4) => Some (IImpl proto ty nm b, ts4) | None => None end.
Proof.
  intros H. destruct H as [c|n|n Hn].
  - destruct c; reflexivity.
  - reflexivity.
  - cbn [app].
    change (one_item fuel (TId "impl" :: TId proto :: TId "for" :: TId ty :: TId n :: P "{" :: ts3))
      with (let '(nm, ts2) := impl_name (TId n :: P "{" :: ts3) in
            match ts2 with
            | TPunct "{"%char :: ts3 =>
                match many1 (impl_item fuel) fuel ts3 with Some (b, ts4) => Some (IImpl proto ty nm b, ts4) | None => None end
            | _ => None
            end).
    cbn [impl_name]. rewrite Hn. reflexivity.
Qed.

Lemma item_toks_len it ts : item_toks it ts -> (1 <= length ts)%nat.
Proof. destruct 1; cbn [length]; try lia. apply print_item_nonempty. Qed.

Lemma item_toks_print it ts : item_toks it ts -> wf_item it = true ->
  forall fuel rest, (length ts <= fuel)%nat -> one_item fuel (ts ++ rest) = Some (it, rest).
Proof.
  intros H Hwf fuel rest Hfuel. destruct H as [name fs ftss Hfs|proto ty nm body nts Hn|it Hother].
  - cbn [wf_item] in Hwf. apply andb_prop in Hwf. destruct Hwf as [Hne Hwfs].
    cbn [length] in Hfuel. rewrite app_length in Hfuel. cbn [length] in Hfuel.
    cbn [app]. rewrite <- app_assoc. cbn [app]. rewrite one_item_struct.
    rewrite (many1_spelled (field fuel) field_toks fs ftss Hfs); [reflexivity|now apply nonempty_ne| | |].
    + intros f ts r Hin Hf Hin'. apply field_toks_print; [exact Hf| |].
      * rewrite forallb_forall in Hwfs. now apply Hwfs.
      * pose proof (length_in_concat ftss ts Hin'). lia.
    + intros f ts r [pts [_ ->]]. exact I.
    + assert (H : (length ftss <= length (concat ftss))%nat).
      { apply length_concat_ge. intros ts Hin.
        destruct (Forall2_in_r _ _ _ _ Hfs Hin) as [f [_ Hf]]. now apply field_toks_len with (f := f). }
      rewrite (Forall2_len _ _ _ Hfs). lia.
  - cbn [wf_item] in Hwf. apply andb_prop in Hwf. destruct Hwf as [Hne Hb].
    cbn [length] in Hfuel. rewrite !app_length in Hfuel. cbn [length] in Hfuel. rewrite app_length in Hfuel. cbn [length] in Hfuel.
    cbn [app]. rewrite <- app_assoc. cbn [app]. rewrite <- app_assoc. cbn [app].
    rewrite (one_item_impl fuel proto ty nm nts _ Hn).
    rewrite many1_print; [reflexivity|now apply nonempty_ne| | |].
    + intros x r Hin. apply impl_item_print.
      * rewrite forallb_forall in Hb. now apply Hb.
      * pose proof (length_in_flat_map print_impl_item body x Hin). lia.
    + intros x r Hin. destruct x; exact I.
    + assert (H : (length body <= length (flat_map print_impl_item body))%nat).
      { apply length_flat_map_ge. intros x _. apply print_impl_item_len. }
      lia.
  - now apply one_item_print.
Qed.

Lemma items_toks_print : forall its tss, Forall2 item_toks its tss -> forallb wf_item its = true ->
  forall fuel, (length (concat tss) < fuel)%nat -> items fuel (concat tss) = Some its.
Proof.
  induction 1 as [|it ts its tss Hit Hits IH]; intros Hwf fuel Hfuel; (destruct fuel as [|f]; [lia|]).
  - reflexivity.
  - cbn [forallb] in Hwf. apply andb_prop in Hwf. destruct Hwf as [Hw Hws].
    cbn [concat] in *. rewrite app_length in Hfuel. pose proof (item_toks_len _ _ Hit) as Hlen.
    assert (Hone : one_item (S f) (ts ++ concat tss) = Some (it, concat tss))
      by (apply item_toks_print; [exact Hit|exact Hw|lia]).
    cbn [items].
    destruct (ts ++ concat tss) as [|t tl] eqn:E.
    + apply (f_equal (@length token)) in E. rewrite app_length in E. cbn [length] in E. lia.
    + rewrite Hone. rewrite IH by (auto; lia). reflexivity.
Qed.

(* every spelling of a well-formed description parses to that description *)
Theorem parse_spelled (version : string) (its : list item) (tss : list (list token)) :
  wf_items its = true -> Forall2 item_toks its tss ->
  parse_tokens (TId "version" :: P ":" :: TStr version :: concat tss) = Some (version, its).
Proof.
  intros Hwf H.
  change (parse_tokens (TId "version" :: P ":" :: TStr version :: concat tss))
    with (option_map (pair version) (items (S (length (concat tss))) (concat tss))).
  rewrite (items_toks_print its tss H) by (auto; lia). reflexivity.
Qed.

(* the canonical printer is one such spelling *)
Lemma args_toks_canonical vs : args_toks vs (print_args vs).
Proof.
  induction vs as [|v vs IH]; [constructor|].
  destruct vs as [|v' vs].
  - change (print_args [v]) with (print_val v ++ opt false (P ",") ++ [P ")"]). constructor. constructor.
  - change (print_args (v :: v' :: vs)) with (print_val v ++ opt true (P ",") ++ print_args (v' :: vs)). now constructor.
Qed.

Lemma params_toks_canonical ps : params_toks ps (print_params ps).
Proof.
  induction ps as [|p ps IH]; [exact (PT_nil false)|].
  change (print_params (p :: ps)) with (opt true (P "|") ++ TId (pp_name p) :: P "(" :: print_args (pp_args p) ++ print_params ps).
  constructor; [apply args_toks_canonical|exact IH].
Qed.

Lemma item_toks_canonical it : item_toks it (print_item it).
Proof.
  destruct it as [name fs|name vals|proto ty nm body|name sid ms|name fs|path]; try (apply IT_other; exact I).
  - cbn [print_item]. rewrite flat_map_concat_map. constructor.
    induction fs as [|f fs IH]; constructor; [|exact IH].
    exists (print_params (pf_params f)). split; [apply params_toks_canonical|reflexivity].
  - cbn [print_item]. constructor. destruct nm; [apply NT_as|exact (NT_none false)].
Qed.
