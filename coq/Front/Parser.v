(* Model parser: tokens -> items (recursive descent over the productions of
   the grammar in src/fcp/parser.py, on the printed language).  None = syntax
   error.  No proofs here. *)
From Coq Require Import String Ascii ZArith List Bool.
From FcpV Require Import Front.Lexer.
Import ListNotations.
Open Scope string_scope.

Inductive pval := PVInt (z : Z) | PVFloat (lexeme : string) | PVStr (s : string) | PVArr (l : list pval).

Inductive pty :=
| PTU (n : nat) | PTI (n : nat) | PTF32 | PTF64 | PTStr | PTRef (name : string)
| PTArr (t : pty) (size : pval) | PTDyn (t : pty) | PTOpt (t : pty).

Record pparam := { pp_name : string; pp_args : list pval }.
Record pfield := { pf_name : string; pf_id : pval; pf_type : pty; pf_params : list pparam }.
Inductive pimpl_item := PExt (k : string) (v : pval) | PSig (name : string) (fields : list (string * pval)).
Record pmethod := { pm_name : string; pm_input : string; pm_id : pval; pm_output : string }.

Inductive item :=
| IStruct (name : string) (fields : list pfield)
| IEnum (name : string) (vals : list (string * pval))
| IImpl (protocol type : string) (name : option string) (body : list pimpl_item)
| IService (name : string) (id : pval) (methods : list pmethod)
| IDevice (name : string) (fields : list (string * pval))
| IMod (path : list string).

Definition P (c : ascii) : token := TPunct c.

(* ---- type names: "u"/"i" + one or two digits, f32, f64, str; anything else is a reference ---- *)
Definition all_digits (s : string) : bool :=
  (fix go s := match s with EmptyString => true | String c s' => is_digit c && go s' end) s.

Definition classify (name : string) : pty :=
  match name with
  | "str" => PTStr | "f32" => PTF32 | "f64" => PTF64
  | String c rest =>
      let l := String.length rest in
      if (Ascii.eqb c "u" || Ascii.eqb c "i") && (Nat.eqb l 1 || Nat.eqb l 2) && all_digits rest then
        let n := Z.to_nat (digits_value rest 0) in
        if Ascii.eqb c "u" then PTU n else PTI n
      else PTRef name
  | EmptyString => PTRef name
  end.

Definition tok_eqb (a b : token) : bool :=
  match a, b with
  | TId x, TId y | TFloat x, TFloat y | TStr x, TStr y => String.eqb x y
  | TInt x, TInt y => Z.eqb x y
  | TPunct x, TPunct y => Ascii.eqb x y
  | _, _ => false
  end.

Definition expect (t : token) (ts : list token) : option (list token) :=
  match ts with x :: ts' => if tok_eqb x t then Some ts' else None | [] => None end.

Definition accept (t : token) (ts : list token) : list token :=
  match ts with x :: ts' => if tok_eqb x t then ts' else ts | [] => ts end.

Definition number (ts : list token) : option (pval * list token) :=
  match ts with
  | TInt z :: ts' => Some (PVInt z, ts')
  | TFloat l :: ts' => Some (PVFloat l, ts')
  | _ => None
  end.

Definition ident (ts : list token) : option (string * list token) :=
  match ts with TId s :: ts' => Some (s, ts') | _ => None end.

(* ---- values: array | identifier | number | string ---- *)
(* the tail of an array after its first element: ("," value)* "]" ; [val] parses one element *)
Fixpoint array_tail (val : list token -> option (pval * list token)) (g : nat) (acc : list pval) (ts : list token)
  : option (pval * list token) :=
  match g with
  | O => None
  | S g' =>
      match ts with
      | TPunct "]" :: ts2 => Some (PVArr (rev acc), ts2)
      | TPunct "," :: ts2 =>
          match val ts2 with
          | Some (v', ts3) => array_tail val g' (v' :: acc) ts3
          | None => None
          end
      | _ => None
      end
  end.

Fixpoint value (fuel : nat) (ts : list token) : option (pval * list token) :=
  match fuel with
  | O => None
  | S f =>
      match ts with
      | TInt z :: ts' => Some (PVInt z, ts')
      | TFloat l :: ts' => Some (PVFloat l, ts')
      | TStr s :: ts' => Some (PVStr s, ts')
      | TId s :: ts' => Some (PVStr s, ts')
      | TPunct "[" :: ts' =>
          match value f ts' with
          | Some (v, ts1) => array_tail (value f) f [v] ts1
          | None => None
          end
      | _ => None
      end
  end.

(* ---- types ---- *)
Fixpoint type (fuel : nat) (ts : list token) : option (pty * list token) :=
  match fuel with
  | O => None
  | S f =>
      match ts with
      | TId name :: ts' =>
          match (if String.eqb name "Optional" then expect (P "[") ts' else None) with
          | Some ts'' =>
              match type f ts'' with
              | Some (t, ts1) => option_map (pair (PTOpt t)) (expect (P "]") ts1)
              | None => None
              end
          | None => Some (classify name, ts')
          end
      | TPunct "[" :: ts' =>
          match type f ts' with
          | Some (t, TPunct "]" :: ts1) => Some (PTDyn t, ts1)
          | Some (t, TPunct "," :: ts1) =>
              match number ts1 with
              | Some (n, ts2) => option_map (pair (PTArr t n)) (expect (P "]") ts2)
              | None => None
              end
          | _ => None
          end
      | _ => None
      end
  end.

(* ---- field parameters: ["|"] name "(" value [","] ... ")" ; the model only
   covers the parenthesised form (a parenthesis-free parameter is out of domain) ---- *)
Fixpoint args (fuel : nat) (ts : list token) : option (list pval * list token) :=
  match fuel with
  | O => None
  | S f =>
      match ts with
      | TPunct ")" :: ts' => Some ([], ts')
      | _ =>
          match value fuel ts with
          | Some (v, ts1) =>
              match args f (accept (P ",") ts1) with
              | Some (vs, ts2) => Some (v :: vs, ts2)
              | None => None
              end
          | None => None
          end
      end
  end.

Fixpoint params (fuel : nat) (ts : list token) : option (list pparam * list token) :=
  match fuel with
  | O => None
  | S f =>
      match accept (P "|") ts with
      | TId name :: TPunct "(" :: ts1 =>
          match args fuel ts1 with
          | Some (vs, ts2) =>
              match params f ts2 with
              | Some (ps, ts3) => Some ({| pp_name := name; pp_args := vs |} :: ps, ts3)
              | None => None
              end
          | None => None
          end
      | TPunct "," :: ts1 => Some ([], ts1)      (* the field's closing comma *)
      | _ => None
      end
  end.

Definition field (fuel : nat) (ts : list token) : option (pfield * list token) :=
  match ts with
  | TId name :: TPunct "@" :: ts1 =>
      match number ts1 with
      | Some (fid, TPunct ":" :: ts2) =>
          match type fuel ts2 with
          | Some (t, ts3) =>
              match params fuel ts3 with
              | Some (ps, ts4) => Some ({| pf_name := name; pf_id := fid; pf_type := t; pf_params := ps |}, ts4)
              | None => None
              end
          | None => None
          end
      | _ => None
      end
  | _ => None
  end.

(* one or more X up to the closing brace *)
Definition many1 {A : Type} (one : list token -> option (A * list token)) : nat -> list token -> option (list A * list token) :=
  fix go (fuel : nat) (ts : list token) : option (list A * list token) :=
  match fuel with
  | O => None
  | S f =>
      match one ts with
      | Some (x, TPunct "}" :: ts1) => Some ([x], ts1)
      | Some (x, ts1) => match go f ts1 with Some (xs, ts2) => Some (x :: xs, ts2) | None => None end
      | None => None
      end
  end.

Definition ext_field (fuel : nat) (ts : list token) : option ((string * pval) * list token) :=
  match ts with
  | TId k :: TPunct ":" :: ts1 =>
      match value fuel ts1 with
      | Some (v, ts2) => option_map (pair (k, v)) (expect (P ",") ts2)
      | None => None
      end
  | _ => None
  end.

Definition enum_field (fuel : nat) (ts : list token) : option ((string * pval) * list token) :=
  match ts with
  | TId k :: TPunct "=" :: ts1 =>
      match value fuel ts1 with
      | Some (v, ts2) => option_map (pair (k, v)) (expect (P ",") ts2)
      | None => None
      end
  | _ => None
  end.

(* "signal" name "{" : the head of a signal block (anything else in an impl body is an extension field) *)
Definition sig_head (ts : list token) : option (string * list token) :=
  match ts with
  | TId s :: TId name :: TPunct c :: ts1 => if String.eqb s "signal" && Ascii.eqb c "{" then Some (name, ts1) else None
  | _ => None
  end.

Definition impl_item (fuel : nat) (ts : list token) : option (pimpl_item * list token) :=
  match sig_head ts with
  | Some (name, ts1) =>
      match many1 (ext_field fuel) fuel ts1 with
      | Some (fs, ts2) => option_map (pair (PSig name fs)) (expect (P ",") ts2)
      | None => None
      end
  | None => match ext_field fuel ts with Some ((k, v), ts1) => Some (PExt k v, ts1) | None => None end
  end.

Definition method (ts : list token) : option (pmethod * list token) :=
  match ts with
  | TId "method" :: TId name :: TPunct "(" :: TId inp :: TPunct ")" :: TPunct "@" :: ts1 =>
      match number ts1 with
      | Some (mid, TId "returns" :: TId outp :: TPunct "," :: ts2) =>
          Some ({| pm_name := name; pm_input := inp; pm_id := mid; pm_output := outp |}, ts2)
      | _ => None
      end
  | _ => None
  end.

Fixpoint mod_path (fuel : nat) (ts : list token) : option (list string * list token) :=
  match fuel with
  | O => None
  | S f =>
      match ts with
      | TId s :: TPunct ";" :: ts1 => Some ([s], ts1)
      | TId s :: TPunct "." :: ts1 => match mod_path f ts1 with Some (p, ts2) => Some (s :: p, ts2) | None => None end
      | _ => None
      end
  end.

(* "as"? identifier? after `impl P for T`: `as N` and `N` rename, a lone `as` does not *)
Definition impl_name (ts : list token) : option string * list token :=
  match ts with
  | TId a :: ts' =>
      if String.eqb a "as" then match ts' with TId n :: ts'' => (Some n, ts'') | _ => (None, ts') end
      else (Some a, ts')
  | _ => (None, ts)
  end.

Definition one_item (fuel : nat) (ts : list token) : option (item * list token) :=
  match ts with
  | TId "struct" :: TId name :: TPunct "{" :: ts1 =>
      match many1 (field fuel) fuel ts1 with Some (fs, ts2) => Some (IStruct name fs, ts2) | None => None end
  | TId "enum" :: TId name :: TPunct "{" :: TPunct "}" :: ts1 => Some (IEnum name [], ts1)
  | TId "enum" :: TId name :: TPunct "{" :: ts1 =>
      match many1 (enum_field fuel) fuel ts1 with Some (vs, ts2) => Some (IEnum name vs, ts2) | None => None end
  | TId "impl" :: TId proto :: TId "for" :: TId ty :: ts1 =>
      let '(nm, ts2) := impl_name ts1 in
      match ts2 with
      | TPunct "{" :: ts3 =>
          match many1 (impl_item fuel) fuel ts3 with Some (b, ts4) => Some (IImpl proto ty nm b, ts4) | None => None end
      | _ => None
      end
  | TId "service" :: TId name :: TPunct "@" :: ts1 =>
      match number ts1 with
      | Some (sid, TPunct "{" :: ts2) =>
          match many1 method fuel ts2 with Some (ms, ts3) => Some (IService name sid ms, ts3) | None => None end
      | _ => None
      end
  | TId "device" :: TId name :: TPunct "{" :: ts1 =>
      match many1 (ext_field fuel) fuel ts1 with Some (fs, ts2) => Some (IDevice name fs, ts2) | None => None end
  | TId "mod" :: ts1 => match mod_path fuel ts1 with Some (p, ts2) => Some (IMod p, ts2) | None => None end
  | _ => None
  end.

Fixpoint items (fuel : nat) (ts : list token) : option (list item) :=
  match fuel with
  | O => None
  | S f =>
      match ts with
      | [] => Some []
      | _ => match one_item fuel ts with
             | Some (it, ts1) => option_map (cons it) (items f ts1)
             | None => None
             end
      end
  end.

(* preamble: version ":" string ; the version string is checked by the elaborator *)
Definition parse_tokens (ts : list token) : option (string * list item) :=
  match ts with
  | TId "version" :: TPunct ":" :: TStr v :: ts1 =>
      option_map (pair v) (items (S (length ts1)) ts1)
  | _ => None
  end.

Definition parse (src : string) : option (string * list item) :=
  match lex src with Some ts => parse_tokens ts | None => None end.
