(* The front end's answer depends on its input files only through what they
   parse to: two file maps whose files have pairwise the same path and the same
   parse (e.g. two formattings of the same descriptions) get the same tree or
   the same error, through any module graph. *)
From Coq Require Import String Ascii ZArith List Bool Lia.
From FcpV Require Import Schema.Types Front.Lexer Front.Parser Front.Elab.
Import ListNotations.
Open Scope string_scope.

Lemma elab_item_ext o r1 r2 self acc it : (forall p, r1 p = r2 p) -> elab_item o r1 self acc it = elab_item o r2 self acc it.
Proof. intros H. destruct it; try reflexivity. cbn [elab_item]. now rewrite H. Qed.

Lemma elab_items_ext o r1 r2 self : (forall p, r1 p = r2 p) ->
  forall its acc fe, elab_items o r1 self acc fe its = elab_items o r2 self acc fe its.
Proof.
  intros H. induction its as [|it its IH]; intros acc fe; [reflexivity|].
  cbn [elab_items]. rewrite (elab_item_ext o r1 r2 self acc it H).
  destruct (elab_item o r2 self acc it); auto.
Qed.

Definition same_file (a b : path * string) : Prop := fst a = fst b /\ parse (snd a) = parse (snd b).
Definition same_parse (fs1 fs2 : files) : Prop := Forall2 same_file fs1 fs2.

Lemma read_file_same fs1 fs2 p : same_parse fs1 fs2 ->
  match read_file fs1 p, read_file fs2 p with
  | Some a, Some b => parse a = parse b
  | None, None => True
  | _, _ => False
  end.
Proof.
  unfold read_file. induction 1 as [|[p1 s1] [p2 s2] fs1 fs2 [Hp Hs] _ IH]; cbn [find option_map fst snd] in *; [exact I|].
  subst p2. destruct (path_eqb p1 p); [exact Hs|exact IH].
Qed.

Lemma elab_file_same o fs1 fs2 : same_parse fs1 fs2 ->
  forall fuel p, elab_file fuel o fs1 p = elab_file fuel o fs2 p.
Proof.
  intros H. induction fuel as [|fuel IH]; intros p; [reflexivity|].
  cbn [elab_file]. pose proof (read_file_same fs1 fs2 p H) as Hr.
  destruct (read_file fs1 p) as [a|], (read_file fs2 p) as [b|]; try contradiction; [|reflexivity].
  rewrite Hr. destruct (parse b) as [[ver its]|]; [|reflexivity].
  now rewrite (elab_items_ext o (elab_file fuel o fs1) (elab_file fuel o fs2) p IH).
Qed.

Theorem front_end_same_parse o fs1 fs2 root : same_parse fs1 fs2 -> front_end o fs1 root = front_end o fs2 root.
Proof. intros H. unfold front_end. now apply elab_file_same. Qed.
