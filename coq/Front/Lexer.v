(* Model lexer for FCP text (the token language of the grammar in
   src/fcp/parser.py): ignores ' ', '\n', '\t', // comments and /* */ comments;
   identifiers CNAME, numbers SIGNED_NUMBER, strings ESCAPED_STRING (returned
   raw between the quotes), single-character punctuation.  Maximal munch: the
   model is about texts whose tokens are separated where two of them would
   otherwise fuse (what the printer emits).  No proofs here. *)
From Coq Require Import String Ascii ZArith List Bool.
Import ListNotations.
Open Scope char_scope.

Inductive token :=
| TId (s : string)
| TInt (z : Z)
| TFloat (lexeme : string)      (* the decimal lexeme; float() of it comes from the case's oracle table *)
| TStr (s : string)
| TPunct (c : ascii).

Definition is_digit (c : ascii) : bool := let n := nat_of_ascii c in Nat.leb 48 n && Nat.leb n 57.
Definition is_alpha (c : ascii) : bool :=
  let n := nat_of_ascii c in (Nat.leb 65 n && Nat.leb n 90) || (Nat.leb 97 n && Nat.leb n 122) || Nat.eqb n 95.
Definition is_alnum (c : ascii) : bool := is_alpha c || is_digit c.
Definition is_punct (c : ascii) : bool :=
  existsb (Ascii.eqb c) ["{"; "}"; "["; "]"; "("; ")"; ":"; ","; ";"; "@"; "|"; "="; "."].
Definition is_space (c : ascii) : bool :=
  let n := nat_of_ascii c in Nat.eqb n 32 || Nat.eqb n 10 || Nat.eqb n 9.

(* take the longest prefix satisfying p *)
Fixpoint span (p : ascii -> bool) (s : string) : string * string :=
  match s with
  | String c s' => if p c then let '(a, b) := span p s' in (String c a, b) else (EmptyString, s)
  | EmptyString => (EmptyString, EmptyString)
  end.

Fixpoint digits_value (s : string) (acc : Z) : Z :=
  match s with
  | String c s' => digits_value s' (10 * acc + Z.of_nat (nat_of_ascii c - 48))%Z
  | EmptyString => acc
  end.

(* skip to just after the end of line / the closing */ ; None = unterminated block comment *)
Fixpoint skip_line (s : string) : string :=
  match s with
  | String c s' => if Nat.eqb (nat_of_ascii c) 10 then s' else skip_line s'
  | EmptyString => EmptyString
  end.
Fixpoint skip_block (s : string) : option string :=
  match s with
  | String c s' =>
      match s' with
      | String d s'' => if Ascii.eqb c "*" && Ascii.eqb d "/" then Some s'' else skip_block s'
      | EmptyString => None
      end
  | EmptyString => None
  end.

(* string body up to the closing quote, backslash escapes kept raw; no newline inside *)
Fixpoint str_body (s : string) : option (string * string) :=
  match s with
  | String c s' =>
      if Ascii.eqb c "\" then
        match s' with
        | String d s'' => match str_body s'' with Some (a, b) => Some (String c (String d a), b) | None => None end
        | EmptyString => None
        end
      else if Ascii.eqb c """" then Some (EmptyString, s')
      else if Nat.eqb (nat_of_ascii c) 10 then None
      else match str_body s' with Some (a, b) => Some (String c a, b) | None => None end
  | EmptyString => None
  end.

(* a number starting at s (optional sign already taken off by the caller):
   INT | INT "." INT? EXP? | "." INT EXP? | INT EXP ;  EXP = ("e"|"E") ["+"|"-"] INT *)
Definition take_exp (s : string) : option (string * string) :=
  match s with
  | String e s1 =>
      if Ascii.eqb e "e" || Ascii.eqb e "E" then
        let '(sg, s2) := match s1 with
                         | String c s2 => if Ascii.eqb c "+" || Ascii.eqb c "-" then (String c EmptyString, s2) else (EmptyString, s1)
                         | EmptyString => (EmptyString, s1)
                         end in
        let '(ds, rest) := span is_digit s2 in
        match ds with EmptyString => None | _ => Some (String e (sg ++ ds), rest) end
      else None
  | EmptyString => None
  end.

(* returns (is_float, lexeme, rest) *)
Definition take_number (s : string) : option (bool * string * string) :=
  let '(ip, r1) := span is_digit s in
  let no_dot :=
    match ip with
    | EmptyString => None
    | _ => match take_exp r1 with
           | Some (ex, r4) => Some (true, ip ++ ex, r4)
           | None => Some (false, ip, r1)
           end
    end%string in
  match r1 with
  | String c r2 =>
      if Ascii.eqb c "." then
        let '(fp, r3) := span is_digit r2 in
        match ip, fp with
        | EmptyString, EmptyString => None
        | _, _ =>
            match take_exp r3 with
            | Some (ex, r4) => Some (true, ip ++ "." ++ fp ++ ex, r4)
            | None => Some (true, ip ++ "." ++ fp, r3)
            end
        end%string
      else no_dot
  | EmptyString => no_dot
  end.

Definition number_token (neg : bool) (sign : string) (n : bool * string * string) : token * string :=
  let '(isf, lx, rest) := n in
  if isf then (TFloat (sign ++ lx), rest)
  else (TInt (if neg then - digits_value lx 0 else digits_value lx 0)%Z, rest).

(* None = a character no token can start with (UnexpectedCharacters) *)
Fixpoint lex_fuel (fuel : nat) (s : string) : option (list token) :=
  match fuel with
  | O => None
  | S f =>
      match s with
      | EmptyString => Some []
      | String c s' =>
          if is_space c then lex_fuel f s'
          else if Ascii.eqb c "/" then
            match s' with
            | String d s2 =>
                if Ascii.eqb d "/" then lex_fuel f (skip_line s2)
                else if Ascii.eqb d "*" then match skip_block s2 with Some s3 => lex_fuel f s3 | None => None end
                else None
            | EmptyString => None
            end
          else if is_alpha c then
            let '(w, rest) := span is_alnum s in
            option_map (cons (TId w)) (lex_fuel f rest)
          else if Ascii.eqb c """" then
            match str_body s' with
            | Some (b, rest) => option_map (cons (TStr b)) (lex_fuel f rest)
            | None => None
            end
          else if Ascii.eqb c "-" || Ascii.eqb c "+" then
            match take_number s' with
            | Some n => let '(t, rest) := number_token (Ascii.eqb c "-") (String c EmptyString) n in
                        option_map (cons t) (lex_fuel f rest)
            | None => None
            end
          else if is_digit c then
            match take_number s with
            | Some n => let '(t, rest) := number_token false EmptyString n in option_map (cons t) (lex_fuel f rest)
            | None => None
            end
          else if Ascii.eqb c "." then
            (* ".5" is a number, a lone "." is punctuation (module paths) *)
            match take_number s with
            | Some n => let '(t, rest) := number_token false EmptyString n in option_map (cons t) (lex_fuel f rest)
            | None => option_map (cons (TPunct c)) (lex_fuel f s')
            end
          else if is_punct c then option_map (cons (TPunct c)) (lex_fuel f s')
          else None
      end
  end.

Definition lex (s : string) : option (list token) := lex_fuel (S (String.length s)) s.
