(* The lexer is the inverse of rendering, whatever the formatting: a text
   spelled as  blank token blank token ... blank  - where a blank is any run of
   spaces, tabs, newlines, // comments and /* */ comments, and where a blank
   may be empty only if the next character cannot extend the token before it -
   lexes to exactly that token list. *)
From Coq Require Import String Ascii ZArith List Bool Lia Arith.
From FcpV Require Import Front.Lexer.
Import ListNotations.
Open Scope string_scope.

(* ------------------------------------------------------------------ *)
(* strings *)

Lemma length_app (a b : string) : String.length (a ++ b) = (String.length a + String.length b)%nat.
Proof. induction a as [|c a IH]; cbn; [reflexivity|now rewrite IH]. Qed.

Lemma app_assoc_s (a b c : string) : ((a ++ b) ++ c = a ++ (b ++ c))%string.
Proof. induction a as [|x a IH]; cbn; [reflexivity|now rewrite IH]. Qed.

Lemma append_nil_r_spec (a : string) : (a ++ "" = a)%string.
Proof. induction a as [|x a IH]; cbn; [reflexivity|now rewrite IH]. Qed.

Definition first_ok (p : ascii -> bool) (s : string) : bool :=
  match s with EmptyString => true | String c _ => p c end.

Fixpoint all_chars (p : ascii -> bool) (s : string) : bool :=
  match s with EmptyString => true | String c s' => p c && all_chars p s' end.

Lemma span_all p w s : all_chars p w = true -> first_ok (fun c => negb (p c)) s = true -> span p (w ++ s) = (w, s).
Proof.
  intros Hw Hs. induction w as [|c w IH]; cbn [append all_chars] in *.
  - destruct s as [|c s]; [reflexivity|]. cbn [first_ok] in Hs. cbn [span]. apply negb_true_iff in Hs. now rewrite Hs.
  - apply andb_prop in Hw. destruct Hw as [Hc Hw]. cbn [span]. rewrite Hc. now rewrite (IH Hw).
Qed.

(* span over a string with something appended that cannot continue the run *)
Lemma span_app p a s : first_ok (fun c => negb (p c)) s = true ->
  span p (a ++ s) = (fst (span p a), snd (span p a) ++ s).
Proof.
  intros Hs. induction a as [|c a IH]; cbn [append].
  - destruct s as [|c s]; [reflexivity|]. cbn [first_ok] in Hs. apply negb_true_iff in Hs. cbn [span]. now rewrite Hs.
  - cbn [span]. destruct (p c); [|reflexivity]. rewrite IH. destruct (span p a); reflexivity.
Qed.

(* ------------------------------------------------------------------ *)
(* character classes are disjoint where the lexer's if-chain needs it (256 cases each) *)

Ltac all_ascii c := destruct c as [[] [] [] [] [] [] [] []]; try discriminate; try reflexivity.

Lemma alpha_class c : is_alpha c = true -> is_space c = false /\ Ascii.eqb c "/" = false.
Proof. intros H. split; revert H; all_ascii c. Qed.

Lemma digit_class c : is_digit c = true ->
  is_space c = false /\ Ascii.eqb c "/" = false /\ is_alpha c = false /\ Ascii.eqb c """" = false /\
  (Ascii.eqb c "-" || Ascii.eqb c "+") = false.
Proof. intros H. repeat split; revert H; all_ascii c. Qed.

Lemma punct_class c : is_punct c = true ->
  is_space c = false /\ Ascii.eqb c "/" = false /\ is_alpha c = false /\ Ascii.eqb c """" = false /\
  (Ascii.eqb c "-" || Ascii.eqb c "+") = false /\ is_digit c = false.
Proof. intros H. repeat split; revert H; all_ascii c. Qed.

(* ------------------------------------------------------------------ *)
(* sufficient fuel *)

Definition lexes (s : string) (ts : list token) : Prop :=
  forall fuel, (String.length s < fuel)%nat -> lex_fuel fuel s = Some ts.

Lemma lexes_lex s ts : lexes s ts -> lex s = Some ts.
Proof. intros H. apply H. lia. Qed.

Lemma lexes_nil : lexes "" [].
Proof. intros [|f] H; [cbn in H; lia|reflexivity]. Qed.

Lemma lexes_space c s ts : is_space c = true -> lexes s ts -> lexes (String c s) ts.
Proof.
  intros Hc H [|f] Hf; [lia|]. cbn [lex_fuel]. rewrite Hc. apply H. cbn [String.length] in Hf. lia.
Qed.

(* ---- comments ---- *)
Definition nl : ascii := ascii_of_nat 10.
Definition not_nl (c : ascii) : bool := negb (Nat.eqb (nat_of_ascii c) 10).

Lemma skip_line_app l s : all_chars not_nl l = true -> skip_line (l ++ String nl s) = s.
Proof.
  intros H. induction l as [|c l IH]; cbn [append all_chars] in *.
  - reflexivity.
  - apply andb_prop in H. destruct H as [Hc Hl]. cbn [skip_line]. unfold not_nl in Hc. apply negb_true_iff in Hc.
    rewrite Hc. now apply IH.
Qed.

Lemma skip_line_eof l : all_chars not_nl l = true -> skip_line l = "".
Proof.
  intros H. induction l as [|c l IH]; cbn [all_chars] in *; [reflexivity|].
  apply andb_prop in H. destruct H as [Hc Hl]. cbn [skip_line]. unfold not_nl in Hc. apply negb_true_iff in Hc.
  rewrite Hc. now apply IH.
Qed.

Lemma lexes_line l s ts : all_chars not_nl l = true -> lexes s ts -> lexes ("//" ++ l ++ String nl s) ts.
Proof.
  intros Hl H [|f] Hf; [lia|]. cbn [append lex_fuel]. cbn [is_space nat_of_ascii Ascii.eqb Bool.eqb].
  change (lex_fuel f (skip_line (l ++ String nl s)) = Some ts).
  rewrite skip_line_app by exact Hl. apply H.
  cbn [append String.length] in Hf. rewrite length_app in Hf. cbn [String.length] in Hf. lia.
Qed.

Lemma lexes_line_eof l : all_chars not_nl l = true -> lexes ("//" ++ l) [].
Proof.
  intros Hl [|f] Hf; [lia|]. cbn [append lex_fuel].
  change (lex_fuel f (skip_line l) = Some []).
  rewrite skip_line_eof by exact Hl. apply lexes_nil. cbn [append String.length] in Hf. cbn. lia.
Qed.

(* a block comment body: the first "*/" of body ++ "*/" is the one at its end *)
Lemma skip_block_app : forall b s, skip_block (b ++ "*/") = Some "" -> skip_block (b ++ "*/" ++ s) = Some s.
Proof.
  induction b as [|c b IH]; intros s H.
  - reflexivity.
  - destruct b as [|d b].
    + cbn [append] in *. cbn [skip_block] in H |- *.
      destruct (Ascii.eqb c "*" && Ascii.eqb "*" "/")%char eqn:E.
      * exfalso. apply andb_prop in E. destruct E as [_ E]. discriminate E.
      * cbn [Ascii.eqb Bool.eqb andb]. reflexivity.
    + cbn [append] in H |- *. cbn [skip_block] in H |- *. cbn [append] in IH.
      destruct (Ascii.eqb c "*" && Ascii.eqb d "/")%char eqn:E.
      * exfalso. injection H as H. destruct b; discriminate H.
      * apply IH. exact H.
Qed.

Lemma length_skip_block : forall s r, skip_block s = Some r -> (String.length r <= String.length s)%nat.
Proof.
  induction s as [|c s IH]; intros r H; [discriminate|].
  destruct s as [|d s]; [discriminate|]. cbn [skip_block] in H.
  destruct (Ascii.eqb c "*" && Ascii.eqb d "/")%char.
  - injection H as <-. cbn [String.length]. lia.
  - apply IH in H. cbn [String.length] in *. lia.
Qed.

Lemma lexes_block b s ts : skip_block (b ++ "*/") = Some "" -> lexes s ts -> lexes ("/*" ++ b ++ "*/" ++ s) ts.
Proof.
  intros Hb H [|f] Hf; [lia|]. cbn [append lex_fuel].
  change (match skip_block (b ++ "*/" ++ s) with Some s3 => lex_fuel f s3 | None => None end = Some ts).
  rewrite skip_block_app by exact Hb. apply H.
  cbn [append String.length] in Hf. rewrite length_app in Hf. cbn [append String.length] in Hf. lia.
Qed.

(* ---- blanks ---- *)
Inductive blank : string -> Prop :=
| B_nil : blank ""
| B_space c w : is_space c = true -> blank w -> blank (String c w)
| B_line l w : all_chars not_nl l = true -> blank w -> blank ("//" ++ l ++ String nl w)
| B_block b w : skip_block (b ++ "*/") = Some "" -> blank w -> blank ("/*" ++ b ++ "*/" ++ w).

(* what a blank or the end of input looks like to the token before it *)
Definition blank_start (c : ascii) : bool := is_space c || Ascii.eqb c "/".

Lemma lexes_blank w : blank w -> forall s ts, lexes s ts -> lexes (w ++ s) ts.
Proof.
  induction 1 as [|c w Hc Hw IH|l w Hl Hw IH|b w Hb Hw IH]; intros s ts H.
  - exact H.
  - cbn [append]. apply lexes_space; [exact Hc|now apply IH].
  - change (("//" ++ l ++ String nl w) ++ s) with ("//" ++ ((l ++ String nl w) ++ s)).
    rewrite app_assoc_s. cbn [append]. apply (lexes_line l (w ++ s) ts Hl). now apply IH.
  - change (("/*" ++ b ++ "*/" ++ w) ++ s) with ("/*" ++ ((b ++ "*/" ++ w) ++ s)).
    rewrite app_assoc_s. cbn [append]. apply (lexes_block b (w ++ s) ts Hb). now apply IH.
Qed.

(* ------------------------------------------------------------------ *)
(* tokens *)

(* identifiers *)
Lemma lexes_id c w s ts :
  is_alpha c = true -> all_chars is_alnum w = true -> first_ok (fun x => negb (is_alnum x)) s = true ->
  lexes s ts -> lexes (String c w ++ s) (TId (String c w) :: ts).
Proof.
  intros Hc Hw Hs H [|f] Hf; [lia|].
  destruct (alpha_class c Hc) as [H1 H2].
  cbn [append lex_fuel]. rewrite H1, H2, Hc.
  change (String c (w ++ s)) with (String c w ++ s).
  rewrite span_all; [|cbn [all_chars]; unfold is_alnum at 1; rewrite Hc; exact Hw|exact Hs].
  rewrite H; [reflexivity|]. cbn [append String.length] in Hf. rewrite length_app in Hf. lia.
Qed.

(* strings: the body holds no unescaped quote and no newline, i.e. str_body reads it up to its closing quote *)
Lemma str_body_app : forall b s, str_body (b ++ """") = Some (b, "") -> str_body (b ++ String """" s) = Some (b, s).
Proof.
  fix IH 1. intros b s H. destruct b as [|c b].
  - reflexivity.
  - cbn [append] in *. cbn [str_body] in H |- *.
    destruct (Ascii.eqb c "\")%char.
    + destruct b as [|d b]; [discriminate|]. cbn [append] in *.
      destruct (str_body (b ++ """")) as [[a r]|] eqn:E; [|discriminate].
      injection H as Ha Hr. subst r. assert (a = b) by congruence. subst a.
      rewrite (IH b s E). reflexivity.
    + destruct (Ascii.eqb c """")%char.
      * exfalso. injection H as H _. discriminate H.
      * destruct (Nat.eqb (nat_of_ascii c) 10); [discriminate|].
        destruct (str_body (b ++ """")) as [[a r]|] eqn:E; [|discriminate].
        injection H as Ha Hr. subst r a.
        rewrite (IH b s E). reflexivity.
Qed.

Lemma lexes_str b s ts :
  str_body (b ++ """") = Some (b, "") -> lexes s ts -> lexes (String """" (b ++ String """" s)) (TStr b :: ts).
Proof.
  intros Hb H [|f] Hf; [lia|].
  cbn [lex_fuel]. cbn [is_space nat_of_ascii Ascii.eqb Bool.eqb is_alpha].
  change (match str_body (b ++ String """" s) with
          | Some (b0, rest) => option_map (cons (TStr b0)) (lex_fuel f rest)
          | None => None
          end = Some (TStr b :: ts)).
  rewrite str_body_app by exact Hb. rewrite H; [reflexivity|].
  cbn [String.length] in Hf. rewrite length_app in Hf. cbn [String.length] in Hf. lia.
Qed.

(* punctuation; "." must not be followed by a digit (".5" is a number) *)
Lemma take_number_dot s : first_ok (fun x => negb (is_digit x)) s = true -> take_number (String "." s) = None.
Proof.
  intros Hs. destruct s as [|c s]; [reflexivity|].
  cbn [first_ok] in Hs. apply negb_true_iff in Hs.
  unfold take_number. cbn [span]. change (is_digit ".") with false. cbv iota beta.
  change (Ascii.eqb "." ".") with true. cbv iota. cbn [span]. rewrite Hs. reflexivity.
Qed.

Lemma lexes_punct c s ts :
  is_punct c = true -> (Ascii.eqb c "." = true -> first_ok (fun x => negb (is_digit x)) s = true) ->
  lexes s ts -> lexes (String c s) (TPunct c :: ts).
Proof.
  intros Hc Hdot H [|f] Hf; [lia|].
  destruct (punct_class c Hc) as [H1 [H2 [H3 [H4 [H5 H6]]]]].
  cbn [lex_fuel]. rewrite H1, H2, H3, H4, H5, H6.
  assert (Hrest : lex_fuel f s = Some ts) by (apply H; cbn [String.length] in Hf; lia).
  destruct (Ascii.eqb c ".") eqn:E.
  - apply Ascii.eqb_eq in E. subst c. rewrite take_number_dot by (now apply Hdot). rewrite Hrest. reflexivity.
  - rewrite Hc, Hrest. reflexivity.
Qed.

(* numbers: an unsigned body is what take_number reads completely *)
Definition num_follow (c : ascii) : bool :=
  negb (is_digit c) && negb (Ascii.eqb c ".") && negb (Ascii.eqb c "e") && negb (Ascii.eqb c "E").

Lemma num_follow_digit s : first_ok num_follow s = true -> first_ok (fun x => negb (is_digit x)) s = true.
Proof.
  destruct s as [|c s]; [reflexivity|]. cbn [first_ok]. unfold num_follow. intros H.
  apply andb_prop in H. destruct H as [H _]. apply andb_prop in H. destruct H as [H _]. apply andb_prop in H. now destruct H.
Qed.

Lemma take_exp_follow s : first_ok num_follow s = true -> take_exp s = None.
Proof.
  destruct s as [|c s]; [reflexivity|]. cbn [first_ok]. unfold num_follow. intros H.
  apply andb_prop in H. destruct H as [H HE]. apply andb_prop in H. destruct H as [_ He].
  apply negb_true_iff in HE, He. unfold take_exp. now rewrite He, HE.
Qed.

Lemma take_exp_app x ex s : take_exp x = Some (ex, "") -> first_ok num_follow s = true -> take_exp (x ++ s) = Some (ex, s).
Proof.
  intros H Hs. destruct x as [|e x]; [discriminate|]. cbn [append]. unfold take_exp in *.
  destruct (Ascii.eqb e "e" || Ascii.eqb e "E")%char; [|discriminate].
  assert (Hgen : forall sg s2, (let '(ds, rest) := span is_digit s2 in
                                match ds with EmptyString => None | _ => Some (String e (sg ++ ds), rest) end) = Some (ex, "") ->
                  (let '(ds, rest) := span is_digit (s2 ++ s) in
                   match ds with EmptyString => None | _ => Some (String e (sg ++ ds), rest) end) = Some (ex, s)).
  { intros sg s2 H2. rewrite span_app by (now apply num_follow_digit).
    destruct (span is_digit s2) as [ds rest]. cbn [fst snd]. destruct ds; [discriminate|].
    injection H2 as H2 H3. subst rest. cbn [append]. now rewrite H2. }
  destruct x as [|c x].
  - cbn [append]. discriminate H.
  - cbn [append]. destruct (Ascii.eqb c "+" || Ascii.eqb c "-")%char.
    + now apply Hgen.
    + change (String c (x ++ s)) with (String c x ++ s). now apply Hgen.
Qed.

Lemma take_number_app body isf s :
  take_number body = Some (isf, body, "") -> first_ok num_follow s = true -> take_number (body ++ s) = Some (isf, body, s).
Proof.
  intros H Hs. unfold take_number in *.
  rewrite span_app by (now apply num_follow_digit).
  destruct (span is_digit body) as [ip r1]. cbn [fst snd].
  destruct r1 as [|c r2].
  - (* digits only *)
    cbn [append]. destruct ip as [|i ip]; [discriminate|].
    cbn [take_exp] in H. injection H as H1 H2. subst isf body.
    destruct s as [|c s].
    + reflexivity.
    + assert (Hc : Ascii.eqb c "." = false).
      { cbn [first_ok] in Hs. unfold num_follow in Hs. apply andb_prop in Hs. destruct Hs as [Hs _].
        apply andb_prop in Hs. destruct Hs as [Hs _]. apply andb_prop in Hs. destruct Hs as [_ Hs]. now apply negb_true_iff in Hs. }
      rewrite Hc. rewrite take_exp_follow by exact Hs. reflexivity.
  - cbn [append]. destruct (Ascii.eqb c ".").
    + rewrite span_app by (now apply num_follow_digit).
      destruct (span is_digit r2) as [fp r3]. cbn [fst snd].
      assert (Hexp : forall (k : string -> string) (k0 : string),
                (match take_exp r3 with Some (ex, r4) => Some (true, k ex, r4) | None => Some (true, k0, r3) end)
                  = Some (isf, body, "") ->
                (match take_exp (r3 ++ s) with Some (ex, r4) => Some (true, k ex, r4) | None => Some (true, k0, r3 ++ s) end)
                  = Some (isf, body, s)).
      { intros k k0 Hk. destruct (take_exp r3) as [[ex r4]|] eqn:E.
        - injection Hk as Hk1 Hk2 Hk3. subst r4. rewrite (take_exp_app r3 ex s E Hs). congruence.
        - injection Hk as Hk1 Hk2 Hk3. subst r3. cbn [append]. rewrite take_exp_follow by exact Hs. congruence. }
      destruct ip as [|i ip]; destruct fp as [|q fp]; try discriminate.
      * exact (Hexp (fun ex => "" ++ "." ++ String q fp ++ ex) _ H).
      * exact (Hexp (fun ex => String i ip ++ "." ++ "" ++ ex) _ H).
      * exact (Hexp (fun ex => String i ip ++ "." ++ String q fp ++ ex) _ H).
    + destruct ip as [|i ip]; [discriminate|].
      destruct (take_exp (String c r2)) as [[ex r4]|] eqn:E.
      * injection H as H1 H2 H3. subst r4.
        change (String c (r2 ++ s)) with (String c r2 ++ s). rewrite (take_exp_app _ ex s E Hs). subst isf body. reflexivity.
      * discriminate H.
Qed.

Definition num_tok (neg : bool) (sign : string) (isf : bool) (body : string) : token :=
  if isf then TFloat (sign ++ body) else TInt (if neg then - digits_value body 0 else digits_value body 0)%Z.

Lemma number_token_tok neg sign isf body s : number_token neg sign (isf, body, s) = (num_tok neg sign isf body, s).
Proof. unfold number_token, num_tok. destruct isf; reflexivity. Qed.

Lemma lexes_num body isf s ts :
  take_number body = Some (isf, body, "") -> first_ok num_follow s = true ->
  lexes s ts -> lexes (body ++ s) (num_tok false "" isf body :: ts).
Proof.
  intros Hb Hs H [|f] Hf; [lia|].
  destruct body as [|c b]; [discriminate|].
  assert (Hrest : lex_fuel f s = Some ts).
  { apply H. cbn [append String.length] in Hf. rewrite length_app in Hf. lia. }
  pose proof (take_number_app _ _ _ Hb Hs) as Happ.
  destruct (is_digit c) eqn:Hd.
  - destruct (digit_class c Hd) as [H1 [H2 [H3 [H4 H5]]]].
    cbn [append lex_fuel]. rewrite H1, H2, H3, H4, H5, Hd.
    change (String c (b ++ s)) with (String c b ++ s). rewrite Happ. rewrite number_token_tok. rewrite Hrest. reflexivity.
  - assert (Hc : c = "."%char).
    { unfold take_number in Hb. cbn [span] in Hb. rewrite Hd in Hb. cbv iota beta in Hb.
      destruct (Ascii.eqb c ".") eqn:E; [now apply Ascii.eqb_eq in E|discriminate Hb]. }
    subst c. cbn [append lex_fuel].
    change (is_space ".") with false. change (Ascii.eqb "." "/") with false. change (is_alpha ".") with false.
    change (Ascii.eqb "." """") with false. change (Ascii.eqb "." "-" || Ascii.eqb "." "+")%char with false.
    change (is_digit ".") with false. change (Ascii.eqb "." ".") with true. cbv iota.
    change (String "." (b ++ s)) with (String "." b ++ s). rewrite Happ. rewrite number_token_tok. rewrite Hrest. reflexivity.
Qed.

Lemma lexes_snum (neg : bool) body isf s ts :
  take_number body = Some (isf, body, "") -> first_ok num_follow s = true ->
  lexes s ts ->
  lexes (String (if neg then "-" else "+")%char (body ++ s))
        (num_tok neg (String (if neg then "-" else "+")%char "") isf body :: ts).
Proof.
  intros Hb Hs H [|f] Hf; [lia|].
  assert (Hrest : lex_fuel f s = Some ts).
  { apply H. cbn [String.length] in Hf. rewrite length_app in Hf. lia. }
  pose proof (take_number_app _ _ _ Hb Hs) as Happ.
  destruct neg; cbn [lex_fuel].
  - change (is_space "-") with false. change (Ascii.eqb "-" "/") with false. change (is_alpha "-") with false.
    change (Ascii.eqb "-" """") with false. change (Ascii.eqb "-" "-" || Ascii.eqb "-" "+")%char with true. cbv iota.
    rewrite Happ. change (Ascii.eqb "-" "-") with true. rewrite number_token_tok. rewrite Hrest. reflexivity.
  - change (is_space "+") with false. change (Ascii.eqb "+" "/") with false. change (is_alpha "+") with false.
    change (Ascii.eqb "+" """") with false. change (Ascii.eqb "+" "-" || Ascii.eqb "+" "+")%char with true. cbv iota.
    rewrite Happ. change (Ascii.eqb "+" "-") with false. rewrite number_token_tok. rewrite Hrest. reflexivity.
Qed.

(* ------------------------------------------------------------------ *)
(* texts that spell a token list *)

Inductive spelled : list token -> string -> Prop :=
| SP_end w : blank w -> spelled [] w
| SP_end_line w l : blank w -> all_chars not_nl l = true -> spelled [] (w ++ "//" ++ l)
| SP_id w c x s ts : blank w -> is_alpha c = true -> all_chars is_alnum x = true ->
    first_ok (fun a => negb (is_alnum a)) s = true -> spelled ts s ->
    spelled (TId (String c x) :: ts) (w ++ String c x ++ s)
| SP_str w b s ts : blank w -> str_body (b ++ """") = Some (b, "") -> spelled ts s ->
    spelled (TStr b :: ts) (w ++ String """" (b ++ String """" s))
| SP_punct w c s ts : blank w -> is_punct c = true ->
    (Ascii.eqb c "." = true -> first_ok (fun a => negb (is_digit a)) s = true) -> spelled ts s ->
    spelled (TPunct c :: ts) (w ++ String c s)
| SP_num w body isf s ts : blank w -> take_number body = Some (isf, body, "") -> first_ok num_follow s = true ->
    spelled ts s -> spelled (num_tok false "" isf body :: ts) (w ++ body ++ s)
| SP_snum w (neg : bool) body isf s ts : blank w -> take_number body = Some (isf, body, "") -> first_ok num_follow s = true ->
    spelled ts s ->
    spelled (num_tok neg (String (if neg then "-" else "+")%char "") isf body :: ts)
            (w ++ String (if neg then "-" else "+")%char (body ++ s)).

Lemma spelled_lexes ts s : spelled ts s -> lexes s ts.
Proof.
  induction 1 as [w Hw|w l Hw Hl|w c x s ts Hw Hc Hx Hs _ IH|w b s ts Hw Hb _ IH|w c s ts Hw Hc Hd _ IH
                  |w body isf s ts Hw Hb Hs _ IH|w neg body isf s ts Hw Hb Hs _ IH].
  - rewrite <- (append_nil_r_spec w). apply lexes_blank; [exact Hw|apply lexes_nil].
  - apply lexes_blank; [exact Hw|now apply lexes_line_eof].
  - apply lexes_blank; [exact Hw|now apply lexes_id].
  - apply lexes_blank; [exact Hw|now apply lexes_str].
  - apply lexes_blank; [exact Hw|now apply lexes_punct].
  - apply lexes_blank; [exact Hw|now apply lexes_num].
  - apply lexes_blank; [exact Hw|now apply lexes_snum].
Qed.

Theorem lex_spelled ts s : spelled ts s -> lex s = Some ts.
Proof. intros H. apply lexes_lex. now apply spelled_lexes. Qed.
