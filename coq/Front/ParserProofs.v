(* Parsing is the inverse of printing, on tokens: for every well-formed item
   list, parse_tokens (print_tokens v its) = Some (v, its).

   Well-formedness (wf_items) is what the grammar itself demands of a
   description: arrays of values are non-empty; ids and array sizes are
   numbers; integer types have one or two digits; a reference is not spelled
   like a built-in type (nor "Optional"); structs, bindings, signal blocks,
   services, devices and module paths are non-empty. *)
From Coq Require Import String Ascii ZArith List Bool Lia Arith.
From FcpV Require Import Front.Lexer Front.Parser Front.Printer.
Import ListNotations.
Open Scope string_scope.
Open Scope list_scope.

(* ------------------------------------------------------------------ *)
(* induction on values (nested through list) *)

Section PvalInd.
  Context (Q : pval -> Prop)
          (HInt : forall z, Q (PVInt z)) (HFloat : forall l, Q (PVFloat l)) (HStr : forall s, Q (PVStr s))
          (HArr : forall l, Forall Q l -> Q (PVArr l)).
  Fixpoint pval_ind2 (v : pval) : Q v :=
    match v with
    | PVInt z => HInt z
    | PVFloat l => HFloat l
    | PVStr s => HStr s
    | PVArr l => HArr l ((fix go (l : list pval) : Forall Q l :=
                            match l with [] => Forall_nil Q | x :: l' => Forall_cons x (pval_ind2 x) (go l') end) l)
    end.
End PvalInd.

(* ------------------------------------------------------------------ *)
(* well-formedness *)

Fixpoint wf_val (v : pval) : bool :=
  match v with
  | PVArr l => match l with [] => false | _ => forallb wf_val l end
  | _ => true
  end.

Definition is_number (v : pval) : bool := match v with PVInt _ | PVFloat _ => true | _ => false end.

Definition ref_ok (name : string) : bool :=
  negb (String.eqb name "Optional") && match classify name with PTRef n => String.eqb n name | _ => false end.

Fixpoint wf_ty (t : pty) : bool :=
  match t with
  | PTU n | PTI n => Nat.ltb n 100
  | PTF32 | PTF64 | PTStr => true
  | PTRef name => ref_ok name
  | PTArr t' size => wf_ty t' && is_number size
  | PTDyn t' | PTOpt t' => wf_ty t'
  end.

Definition nonempty {A : Type} (l : list A) : bool := match l with [] => false | _ => true end.

Definition wf_param (p : pparam) : bool := forallb wf_val (pp_args p).
Definition wf_field (f : pfield) : bool := is_number (pf_id f) && wf_ty (pf_type f) && forallb wf_param (pf_params f).
Definition wf_kv (kv : string * pval) : bool := wf_val (snd kv).
Definition wf_impl_item (x : pimpl_item) : bool :=
  match x with PExt _ v => wf_val v | PSig _ fs => nonempty fs && forallb wf_kv fs end.
Definition wf_method (m : pmethod) : bool := is_number (pm_id m).
Definition wf_item (it : item) : bool :=
  match it with
  | IStruct _ fs => nonempty fs && forallb wf_field fs
  | IEnum _ vals => forallb wf_kv vals
  | IImpl _ _ _ body => nonempty body && forallb wf_impl_item body
  | IService _ sid ms => is_number sid && nonempty ms && forallb wf_method ms
  | IDevice _ fs => nonempty fs && forallb wf_kv fs
  | IMod path => nonempty path
  end.

(* ------------------------------------------------------------------ *)
(* values *)

Lemma print_val_nonempty v : (1 <= length (print_val v))%nat.
Proof. destruct v; cbn; lia. Qed.

(* what a printed value can start with: never "]" "," ")" *)
Definition starts_value (ts : list token) : Prop :=
  match ts with
  | TInt _ :: _ | TFloat _ :: _ | TStr _ :: _ | TPunct "["%char :: _ => True
  | _ => False
  end.

Lemma print_val_starts v rest : starts_value (print_val v ++ rest).
Proof. destruct v; cbn; exact I. Qed.

Definition arr_tail_tokens (l : list pval) : list token := flat_map (fun y => P "," :: print_val y) l.

Lemma array_tail_print (val : list token -> option (pval * list token)) (l : list pval) :
  forall g acc rest,
    (forall y r, In y l -> val (print_val y ++ r) = Some (y, r)) ->
    (length l < g)%nat ->
    array_tail val g acc (arr_tail_tokens l ++ P "]" :: rest) = Some (PVArr (rev acc ++ l), rest).
Proof.
  induction l as [|y l IH]; intros g acc rest Hval Hg.
  - destruct g as [|g]; [cbn in Hg; lia|]. cbn. now rewrite app_nil_r.
  - destruct g as [|g]; [cbn in Hg; lia|].
    unfold arr_tail_tokens. cbn [flat_map]. rewrite <- !app_assoc. cbn [app array_tail P].
    rewrite (Hval y _ (or_introl eq_refl)).
    fold (arr_tail_tokens l). rewrite IH.
    + cbn [rev]. rewrite <- app_assoc. reflexivity.
    + intros y' r Hin. apply Hval. now right.
    + cbn in Hg. lia.
Qed.

Lemma length_arr_tail l : (length l <= length (arr_tail_tokens l))%nat.
Proof.
  induction l as [|y l IH]; cbn; [lia|]. unfold arr_tail_tokens in *. rewrite app_length. lia.
Qed.

Lemma value_print : forall v, wf_val v = true ->
  forall fuel rest, (length (print_val v) <= fuel)%nat -> value fuel (print_val v ++ rest) = Some (v, rest).
Proof.
  induction v as [z|l|s|l IH] using pval_ind2; intros Hwf fuel rest Hfuel.
  - destruct fuel; [cbn in Hfuel; lia|reflexivity].
  - destruct fuel; [cbn in Hfuel; lia|reflexivity].
  - destruct fuel; [cbn in Hfuel; lia|reflexivity].
  - destruct l as [|x l]; [discriminate|].
    destruct fuel as [|f]; [cbn in Hfuel; lia|].
    cbn [print_val] in *. cbn [app value P]. rewrite <- !app_assoc.
    change (wf_val x && forallb wf_val l = true) in Hwf. apply andb_prop in Hwf. destruct Hwf as [Hx Hl].
    inversion IH as [|? ? IHx IHl]; subst.
    cbn [length] in Hfuel. rewrite !app_length in Hfuel. cbn [length] in Hfuel.
    fold (arr_tail_tokens l) in *.
    rewrite IHx by (auto; lia).
    cbn [app].
    rewrite array_tail_print.
    + reflexivity.
    + intros y r Hin. rewrite Forall_forall in IHl. apply IHl; auto.
      * rewrite forallb_forall in Hl. now apply Hl.
      * assert (Hy : (length (print_val y) <= length (arr_tail_tokens l))%nat).
        { clear -Hin. induction l as [|a l IHl']; [destruct Hin|].
          unfold arr_tail_tokens. cbn [flat_map]. rewrite app_length. cbn [length].
          destruct Hin as [->|Hin]; [lia|]. specialize (IHl' Hin). unfold arr_tail_tokens in IHl'. lia. }
        lia.
    + pose proof (length_arr_tail l). pose proof (print_val_nonempty x). lia.
Qed.

(* ------------------------------------------------------------------ *)
(* types *)

Definition uname_ok (c : string) (n : nat) : bool :=
  negb (String.eqb (uname c n) "Optional") &&
  match classify (uname c n), c with
  | PTU m, "u" => Nat.eqb m n
  | PTI m, "i" => Nat.eqb m n
  | _, _ => false
  end.

Lemma uname_sweep : forallb (fun n => uname_ok "u" n && uname_ok "i" n) (seq 0 100) = true.
Proof. vm_compute. reflexivity. Qed.

Lemma uname_u n : (n < 100)%nat -> String.eqb (uname "u" n) "Optional" = false /\ classify (uname "u" n) = PTU n.
Proof.
  intros Hn. pose proof uname_sweep as H. rewrite forallb_forall in H.
  specialize (H n). rewrite in_seq in H. specialize (H ltac:(lia)).
  apply andb_prop in H. destruct H as [H _]. unfold uname_ok in H. apply andb_prop in H. destruct H as [H1 H2].
  split; [now apply negb_true_iff in H1|].
  destruct (classify (uname "u" n)); try discriminate. apply Nat.eqb_eq in H2. now subst.
Qed.

Lemma uname_i n : (n < 100)%nat -> String.eqb (uname "i" n) "Optional" = false /\ classify (uname "i" n) = PTI n.
Proof.
  intros Hn. pose proof uname_sweep as H. rewrite forallb_forall in H.
  specialize (H n). rewrite in_seq in H. specialize (H ltac:(lia)).
  apply andb_prop in H. destruct H as [_ H]. unfold uname_ok in H. apply andb_prop in H. destruct H as [H1 H2].
  split; [now apply negb_true_iff in H1|].
  destruct (classify (uname "i" n)); try discriminate. apply Nat.eqb_eq in H2. now subst.
Qed.

Lemma type_id fuel name rest :
  String.eqb name "Optional" = false -> type (S fuel) (TId name :: rest) = Some (classify name, rest).
Proof. intros H. cbn [type]. now rewrite H. Qed.

Lemma number_print v rest : is_number v = true -> number (print_val v ++ rest) = Some (v, rest).
Proof. destruct v; try discriminate; reflexivity. Qed.

Lemma type_print : forall t, wf_ty t = true ->
  forall fuel rest, (length (print_ty t) <= fuel)%nat -> type fuel (print_ty t ++ rest) = Some (t, rest).
Proof.
  induction t as [n|n| | | |name|t IH size|t IH|t IH]; intros Hwf fuel rest Hfuel;
    (destruct fuel as [|f]; [cbn in Hfuel; lia|]); cbn [wf_ty] in Hwf.
  - apply Nat.ltb_lt in Hwf. destruct (uname_u n Hwf) as [H1 H2]. cbn [print_ty app]. rewrite type_id by exact H1. now rewrite H2.
  - apply Nat.ltb_lt in Hwf. destruct (uname_i n Hwf) as [H1 H2]. cbn [print_ty app]. rewrite type_id by exact H1. now rewrite H2.
  - reflexivity.
  - reflexivity.
  - reflexivity.
  - unfold ref_ok in Hwf. apply andb_prop in Hwf. destruct Hwf as [H1 H2]. apply negb_true_iff in H1.
    cbn [print_ty app]. rewrite type_id by exact H1.
    destruct (classify name); try discriminate. apply String.eqb_eq in H2. now subst.
  - apply andb_prop in Hwf. destruct Hwf as [Ht Hs].
    cbn [print_ty] in *. cbn [length] in Hfuel. rewrite !app_length in Hfuel. cbn [length] in Hfuel.
    rewrite app_length in Hfuel. cbn [length] in Hfuel.
    cbn [app type P]. rewrite <- !app_assoc. rewrite IH by (auto; lia).
    cbn [app]. rewrite <- app_assoc. rewrite number_print by exact Hs. reflexivity.
  - cbn [print_ty] in *. cbn [length] in Hfuel. rewrite !app_length in Hfuel. cbn [length] in Hfuel.
    cbn [app type P]. rewrite <- !app_assoc. rewrite IH by (auto; lia). reflexivity.
  - cbn [print_ty] in *. cbn [length] in Hfuel. rewrite !app_length in Hfuel. cbn [length] in Hfuel.
    cbn [app]. cbn [type]. cbn [String.eqb Ascii.eqb Bool.eqb expect tok_eqb P]. cbn [app].
    rewrite <- !app_assoc. rewrite IH by (auto; lia). reflexivity.
Qed.

(* ------------------------------------------------------------------ *)
(* parameters and fields *)

Lemma args_value fuel v rest :
  args (S fuel) (print_val v ++ rest) =
  match value (S fuel) (print_val v ++ rest) with
  | Some (v0, ts1) => match args fuel (accept (P ",") ts1) with Some (vs, ts2) => Some (v0 :: vs, ts2) | None => None end
  | None => None
  end.
Proof. destruct v; reflexivity. Qed.

Lemma print_args_nonempty vs : (1 <= length (print_args vs))%nat.
Proof.
  destruct vs as [|v [|v' vs]]; cbn [print_args]; rewrite ?app_length; cbn [length]; try lia; pose proof (print_val_nonempty v); lia.
Qed.

Lemma args_print : forall vs, forallb wf_val vs = true ->
  forall fuel rest, (length (print_args vs) <= fuel)%nat -> args fuel (print_args vs ++ rest) = Some (vs, rest).
Proof.
  induction vs as [|v vs IH]; intros Hwf fuel rest Hfuel;
    (destruct fuel as [|f]; [match type of Hfuel with (length (print_args ?l) <= _)%nat => pose proof (print_args_nonempty l) end; lia|]).
  - reflexivity.
  - cbn [forallb] in Hwf. apply andb_prop in Hwf. destruct Hwf as [Hv Hvs].
    destruct vs as [|v' vs].
    + cbn [print_args] in *. rewrite app_length in Hfuel. cbn [length] in Hfuel.
      rewrite <- app_assoc. rewrite args_value. rewrite value_print by (auto; lia).
      cbn [app accept tok_eqb P Ascii.eqb Bool.eqb].
      destruct f as [|f']; [pose proof (print_val_nonempty v); lia|]. reflexivity.
    + change (print_args (v :: v' :: vs)) with (print_val v ++ P "," :: print_args (v' :: vs)) in *.
      rewrite app_length in Hfuel. cbn [length] in Hfuel.
      rewrite <- app_assoc. rewrite args_value. rewrite value_print by (auto; lia).
      cbn [app accept tok_eqb P Ascii.eqb Bool.eqb].
      rewrite IH by (auto; lia). reflexivity.
Qed.

Lemma params_print : forall ps, forallb wf_param ps = true ->
  forall fuel rest, (length (print_params ps) <= fuel)%nat -> params fuel (print_params ps ++ rest) = Some (ps, rest).
Proof.
  induction ps as [|p ps IH]; intros Hwf fuel rest Hfuel;
    (destruct fuel as [|f]; [cbn in Hfuel; lia|]).
  - reflexivity.
  - cbn [forallb] in Hwf. apply andb_prop in Hwf. destruct Hwf as [Hp Hps].
    cbn [print_params] in *. cbn [length] in Hfuel. rewrite app_length in Hfuel.
    cbn [app params accept tok_eqb P Ascii.eqb Bool.eqb]. rewrite <- app_assoc.
    rewrite args_print by (auto; lia).
    rewrite IH by (auto; lia). destruct p; reflexivity.
Qed.

Lemma field_print f : wf_field f = true ->
  forall fuel rest, (length (print_field f) <= fuel)%nat -> field fuel (print_field f ++ rest) = Some (f, rest).
Proof.
  intros Hwf fuel rest Hfuel. unfold wf_field in Hwf.
  apply andb_prop in Hwf. destruct Hwf as [Hwf Hps]. apply andb_prop in Hwf. destruct Hwf as [Hid Hty].
  unfold print_field in *. cbn [length] in Hfuel. rewrite !app_length in Hfuel. cbn [length] in Hfuel. rewrite app_length in Hfuel.
  cbn [app field]. rewrite <- app_assoc. rewrite number_print by exact Hid.
  cbn [app]. rewrite <- app_assoc. rewrite type_print by (auto; lia).
  rewrite params_print by (auto; lia). destruct f; reflexivity.
Qed.

(* ------------------------------------------------------------------ *)
(* one-or-more up to the closing brace *)

Definition starts_id (ts : list token) : Prop := match ts with TId _ :: _ => True | _ => False end.

Lemma many1_print {A : Type} (one : list token -> option (A * list token)) (pr : A -> list token) :
  forall xs, xs <> [] ->
    (forall x r, In x xs -> one (pr x ++ r) = Some (x, r)) ->
    (forall x r, In x xs -> starts_id (pr x ++ r)) ->
    forall fuel rest, (length xs <= fuel)%nat ->
      many1 one fuel (flat_map pr xs ++ P "}" :: rest) = Some (xs, rest).
Proof.
  induction xs as [|x xs IH]; intros Hne Hone Hid fuel rest Hfuel; [congruence|].
  destruct fuel as [|f]; [cbn in Hfuel; lia|].
  cbn [flat_map]. rewrite <- app_assoc. cbn [many1]. rewrite (Hone x _ (or_introl eq_refl)).
  destruct xs as [|x' xs].
  - reflexivity.
  - assert (Hrest : many1 one f (flat_map pr (x' :: xs) ++ P "}" :: rest) = Some (x' :: xs, rest)).
    { apply IH; [discriminate| | |cbn [length] in *; lia].
      - intros y r Hin. apply Hone. now right.
      - intros y r Hin. apply Hid. now right. }
    pose proof (Hid x' (flat_map pr xs ++ P "}" :: rest) (or_intror (or_introl eq_refl))) as Hs.
    cbn [flat_map] in *. rewrite <- app_assoc in *.
    destruct (pr x' ++ flat_map pr xs ++ P "}" :: rest) as [|t ts] eqn:E; [destruct Hs|].
    destruct t; try destruct Hs. rewrite Hrest. reflexivity.
Qed.

Lemma length_flat_map_ge {A : Type} (pr : A -> list token) (xs : list A) :
  (forall x, In x xs -> (1 <= length (pr x))%nat) -> (length xs <= length (flat_map pr xs))%nat.
Proof.
  induction xs as [|x xs IH]; intros H; cbn [flat_map length]; [lia|].
  rewrite app_length. pose proof (H x (or_introl eq_refl)). specialize (IH (fun y Hy => H y (or_intror Hy))). lia.
Qed.

Lemma length_in_flat_map {A : Type} (pr : A -> list token) (xs : list A) x :
  In x xs -> (length (pr x) <= length (flat_map pr xs))%nat.
Proof.
  induction xs as [|y xs IH]; intros Hin; [destruct Hin|].
  cbn [flat_map]. rewrite app_length. destruct Hin as [->|Hin]; [lia|]. specialize (IH Hin). lia.
Qed.

Lemma nonempty_ne {A : Type} (l : list A) : nonempty l = true -> l <> [].
Proof. destruct l; [discriminate|discriminate]. Qed.

(* key/value lines *)
Lemma ext_field_print kv : wf_kv kv = true ->
  forall fuel rest, (length (print_kv ":" kv) <= fuel)%nat -> ext_field fuel (print_kv ":" kv ++ rest) = Some (kv, rest).
Proof.
  intros Hwf fuel rest Hfuel. destruct kv as [k v]. unfold wf_kv in Hwf. cbn [snd] in Hwf.
  unfold print_kv in *. cbn [fst snd] in *. cbn [length] in Hfuel. rewrite app_length in Hfuel. cbn [length] in Hfuel.
  cbn [app ext_field P]. rewrite <- app_assoc. rewrite value_print by (auto; lia). reflexivity.
Qed.

Lemma enum_field_print kv : wf_kv kv = true ->
  forall fuel rest, (length (print_kv "=" kv) <= fuel)%nat -> enum_field fuel (print_kv "=" kv ++ rest) = Some (kv, rest).
Proof.
  intros Hwf fuel rest Hfuel. destruct kv as [k v]. unfold wf_kv in Hwf. cbn [snd] in Hwf.
  unfold print_kv in *. cbn [fst snd] in *. cbn [length] in Hfuel. rewrite app_length in Hfuel. cbn [length] in Hfuel.
  cbn [app enum_field P]. rewrite <- app_assoc. rewrite value_print by (auto; lia). reflexivity.
Qed.

Lemma kvs_print (sep : ascii) (one : nat -> list token -> option ((string * pval) * list token)) :
  (forall kv, wf_kv kv = true -> forall fuel rest, (length (print_kv sep kv) <= fuel)%nat ->
     one fuel (print_kv sep kv ++ rest) = Some (kv, rest)) ->
  forall fs, nonempty fs = true -> forallb wf_kv fs = true ->
  forall fuel rest, (length (flat_map (print_kv sep) fs) <= fuel)%nat ->
    many1 (one fuel) fuel (flat_map (print_kv sep) fs ++ P "}" :: rest) = Some (fs, rest).
Proof.
  intros Hone fs Hne Hwf fuel rest Hfuel.
  apply many1_print.
  - now apply nonempty_ne.
  - intros kv r Hin. apply Hone.
    + rewrite forallb_forall in Hwf. now apply Hwf.
    + pose proof (length_in_flat_map (print_kv sep) fs kv Hin). lia.
  - intros kv r Hin. exact I.
  - assert (H : (length fs <= length (flat_map (print_kv sep) fs))%nat).
    { apply length_flat_map_ge. intros kv _. cbn. lia. }
    lia.
Qed.

(* ------------------------------------------------------------------ *)
(* binding bodies, methods, module paths *)

Lemma print_impl_item_len x : (1 <= length (print_impl_item x))%nat.
Proof. destruct x; cbn; lia. Qed.

Lemma impl_item_print x : wf_impl_item x = true ->
  forall fuel rest, (length (print_impl_item x) <= fuel)%nat -> impl_item fuel (print_impl_item x ++ rest) = Some (x, rest).
Proof.
  intros Hwf fuel rest Hfuel. destruct x as [k v|name fs].
  - cbn [wf_impl_item] in Hwf. cbn [print_impl_item] in *.
    unfold impl_item. replace (sig_head (print_kv ":" (k, v) ++ rest)) with (@None (string * list token)) by reflexivity.
    rewrite ext_field_print by (auto; lia). reflexivity.
  - cbn [wf_impl_item] in Hwf. apply andb_prop in Hwf. destruct Hwf as [Hne Hfs].
    cbn [print_impl_item] in *. cbn [length] in Hfuel. rewrite app_length in Hfuel. cbn [length] in Hfuel.
    unfold impl_item. cbn [app sig_head String.eqb Ascii.eqb Bool.eqb andb P]. rewrite <- app_assoc. cbn [app].
    rewrite (kvs_print ":" ext_field ext_field_print) by (auto; lia). reflexivity.
Qed.

Lemma method_print m : wf_method m = true ->
  forall rest, method (print_method m ++ rest) = Some (m, rest).
Proof.
  intros Hwf rest. unfold wf_method in Hwf. destruct m as [name inp mid outp]. cbn [pm_id] in Hwf.
  destruct mid; try discriminate; reflexivity.
Qed.

Lemma print_path_len p : (1 <= length (print_path p))%nat.
Proof. destruct p as [|s [|s' p]]; cbn; lia. Qed.

Lemma mod_path_print : forall p, p <> [] ->
  forall fuel rest, (length (print_path p) <= fuel)%nat -> mod_path fuel (print_path p ++ rest) = Some (p, rest).
Proof.
  induction p as [|s p IH]; intros Hne fuel rest Hfuel; [congruence|].
  destruct fuel as [|f]; [pose proof (print_path_len (s :: p)); lia|].
  destruct p as [|s' p].
  - reflexivity.
  - change (print_path (s :: s' :: p)) with (TId s :: P "." :: print_path (s' :: p)) in *.
    cbn [length] in Hfuel. cbn [app mod_path P]. rewrite IH by (try discriminate; lia). reflexivity.
Qed.

(* ------------------------------------------------------------------ *)
(* items *)

Lemma one_item_struct fuel name ts1 :
  one_item fuel (TId "struct" :: TId name :: P "{" :: ts1) =
  match many1 (field fuel) fuel ts1 with Some (fs, ts2) => Some (IStruct name fs, ts2) | None => None end.
Proof. reflexivity. Qed.

Lemma one_item_enum_empty fuel name ts1 :
  one_item fuel (TId "enum" :: TId name :: P "{" :: P "}" :: ts1) = Some (IEnum name [], ts1).
Proof. reflexivity. Qed.

Lemma one_item_enum fuel name k ts1 :
  one_item fuel (TId "enum" :: TId name :: P "{" :: TId k :: ts1) =
  match many1 (enum_field fuel) fuel (TId k :: ts1) with Some (vs, ts2) => Some (IEnum name vs, ts2) | None => None end.
Proof. reflexivity. Qed.

Lemma one_item_impl_as fuel proto ty n ts3 :
  one_item fuel (TId "impl" :: TId proto :: TId "for" :: TId ty :: TId "as" :: TId n :: P "{" :: ts3) =
  match many1 (impl_item fuel) fuel ts3 with Some (b, ts4) => Some (IImpl proto ty (Some n) b, ts4) | None => None end.
Proof. reflexivity. Qed.

Lemma one_item_impl_plain fuel proto ty ts3 :
  one_item fuel (TId "impl" :: TId proto :: TId "for" :: TId ty :: P "{" :: ts3) =
  match many1 (impl_item fuel) fuel ts3 with Some (b, ts4) => Some (IImpl proto ty None b, ts4) | None => None end.
Proof. reflexivity. Qed.

Lemma one_item_service fuel name ts1 :
  one_item fuel (TId "service" :: TId name :: P "@" :: ts1) =
  match number ts1 with
  | Some (sid, TPunct "{"%char :: ts2) =>
      match many1 method fuel ts2 with Some (ms, ts3) => Some (IService name sid ms, ts3) | None => None end
  | _ => None
  end.
Proof. reflexivity. Qed.

Lemma one_item_device fuel name ts1 :
  one_item fuel (TId "device" :: TId name :: P "{" :: ts1) =
  match many1 (ext_field fuel) fuel ts1 with Some (fs, ts2) => Some (IDevice name fs, ts2) | None => None end.
Proof. reflexivity. Qed.

Lemma one_item_mod fuel ts1 :
  one_item fuel (TId "mod" :: ts1) = match mod_path fuel ts1 with Some (p, ts2) => Some (IMod p, ts2) | None => None end.
Proof. reflexivity. Qed.

Lemma print_field_len f : (1 <= length (print_field f))%nat.
Proof. unfold print_field. cbn [length]. lia. Qed.

Lemma print_item_len it : (3 <= length (print_item it))%nat \/ (exists p, it = IMod p).
Proof. destruct it; cbn [print_item length]; try (left; lia). right; eauto. Qed.

Lemma print_item_nonempty it : (1 <= length (print_item it))%nat.
Proof. destruct it; cbn [print_item length]; lia. Qed.

Lemma one_item_print it : wf_item it = true ->
  forall fuel rest, (length (print_item it) <= fuel)%nat -> one_item fuel (print_item it ++ rest) = Some (it, rest).
Proof.
  intros Hwf fuel rest Hfuel. destruct it as [name fs|name vals|proto ty nm body|name sid ms|name fs|path]; cbn [wf_item] in Hwf.
  - (* struct *)
    apply andb_prop in Hwf. destruct Hwf as [Hne Hfs].
    cbn [print_item] in *. cbn [length] in Hfuel. rewrite app_length in Hfuel. cbn [length] in Hfuel.
    cbn [app]. rewrite <- app_assoc. cbn [app]. rewrite one_item_struct.
    rewrite many1_print; [reflexivity|now apply nonempty_ne| | |].
    + intros f r Hin. apply field_print.
      * rewrite forallb_forall in Hfs. now apply Hfs.
      * pose proof (length_in_flat_map print_field fs f Hin). lia.
    + intros f r Hin. exact I.
    + assert (H : (length fs <= length (flat_map print_field fs))%nat).
      { apply length_flat_map_ge. intros f _. apply print_field_len. }
      lia.
  - (* enum *)
    cbn [print_item] in *. cbn [length] in Hfuel. rewrite app_length in Hfuel. cbn [length] in Hfuel.
    destruct vals as [|kv vals].
    + reflexivity.
    + cbn [app]. rewrite <- app_assoc. cbn [app]. destruct kv as [k v].
      remember (flat_map (print_kv "=") ((k, v) :: vals) ++ P "}" :: rest) as ts eqn:E.
      assert (Hs : exists ts', ts = TId k :: ts').
      { subst ts. cbn [flat_map print_kv fst snd app]. eexists; reflexivity. }
      destruct Hs as [ts' Hs]. rewrite Hs. rewrite one_item_enum. rewrite <- Hs. subst ts.
      rewrite (kvs_print "=" enum_field enum_field_print) by (auto; lia). reflexivity.
  - (* impl *)
    apply andb_prop in Hwf. destruct Hwf as [Hne Hb].
    assert (Hmany : forall fuel0, (length (flat_map print_impl_item body) <= fuel0)%nat ->
               many1 (impl_item fuel0) fuel0 (flat_map print_impl_item body ++ P "}" :: rest) = Some (body, rest)).
    { intros fuel0 Hf0. apply many1_print.
      - now apply nonempty_ne.
      - intros x r Hin. apply impl_item_print.
        + rewrite forallb_forall in Hb. now apply Hb.
        + pose proof (length_in_flat_map print_impl_item body x Hin). lia.
      - intros x r Hin. destruct x; exact I.
      - assert (H : (length body <= length (flat_map print_impl_item body))%nat).
        { apply length_flat_map_ge. intros x _. apply print_impl_item_len. }
        lia. }
    cbn [print_item] in *. cbn [length] in Hfuel. rewrite !app_length in Hfuel. cbn [length] in Hfuel.
    rewrite app_length in Hfuel. cbn [length] in Hfuel.
    destruct nm as [n|].
    + cbn [app]. rewrite <- app_assoc. cbn [app]. rewrite one_item_impl_as. rewrite Hmany by lia. reflexivity.
    + cbn [app]. rewrite <- app_assoc. cbn [app]. rewrite one_item_impl_plain. rewrite Hmany by lia. reflexivity.
  - (* service *)
    apply andb_prop in Hwf. destruct Hwf as [Hwf Hms]. apply andb_prop in Hwf. destruct Hwf as [Hsid Hne].
    cbn [print_item] in *. cbn [length] in Hfuel. rewrite !app_length in Hfuel. cbn [length] in Hfuel.
    rewrite app_length in Hfuel. cbn [length] in Hfuel.
    cbn [app]. rewrite one_item_service. rewrite <- app_assoc. rewrite number_print by exact Hsid.
    cbn [app]. rewrite <- app_assoc. cbn [app].
    rewrite many1_print; [reflexivity|now apply nonempty_ne| | |].
    + intros m r Hin. apply method_print. rewrite forallb_forall in Hms. now apply Hms.
    + intros m r Hin. exact I.
    + assert (H : (length ms <= length (flat_map print_method ms))%nat).
      { apply length_flat_map_ge. intros m _. unfold print_method. rewrite !app_length. cbn [length]. lia. }
      lia.
  - (* device *)
    apply andb_prop in Hwf. destruct Hwf as [Hne Hfs].
    cbn [print_item] in *. cbn [length] in Hfuel. rewrite app_length in Hfuel. cbn [length] in Hfuel.
    cbn [app]. rewrite <- app_assoc. cbn [app]. rewrite one_item_device.
    rewrite (kvs_print ":" ext_field ext_field_print) by (auto; lia). reflexivity.
  - (* mod *)
    cbn [print_item] in *. cbn [length] in Hfuel.
    cbn [app]. rewrite one_item_mod. rewrite mod_path_print by (first [now apply nonempty_ne | lia]). reflexivity.
Qed.

Lemma items_print : forall its, forallb wf_item its = true ->
  forall fuel, (length (flat_map print_item its) < fuel)%nat -> items fuel (flat_map print_item its) = Some its.
Proof.
  induction its as [|it its IH]; intros Hwf fuel Hfuel; (destruct fuel as [|f]; [lia|]).
  - reflexivity.
  - cbn [forallb] in Hwf. apply andb_prop in Hwf. destruct Hwf as [Hit Hits].
    cbn [flat_map] in *. rewrite app_length in Hfuel. pose proof (print_item_nonempty it) as Hlen.
    assert (Hone : one_item (S f) (print_item it ++ flat_map print_item its) = Some (it, flat_map print_item its))
      by (apply one_item_print; [exact Hit|lia]).
    cbn [items].
    destruct (print_item it ++ flat_map print_item its) as [|t ts] eqn:E.
    + apply (f_equal (@length token)) in E. rewrite app_length in E. cbn [length] in E. lia.
    + rewrite Hone. rewrite IH by (auto; lia). reflexivity.
Qed.

(* ------------------------------------------------------------------ *)

Definition wf_items (its : list item) : bool := forallb wf_item its.

Theorem parse_print_tokens (version : string) (its : list item) :
  wf_items its = true -> parse_tokens (print_tokens version its) = Some (version, its).
Proof.
  intros Hwf. unfold print_tokens. cbn [parse_tokens].
  change (parse_tokens (TId "version" :: P ":" :: TStr version :: flat_map print_item its))
    with (option_map (pair version) (items (S (length (flat_map print_item its))) (flat_map print_item its))).
  rewrite items_print by (auto; lia). reflexivity.
Qed.
