(* Model of FcpV2Transformer (src/fcp/parser.py) on parsed items: running
   struct/enum tables, one default impl per struct, parameter conversion,
   last-wins dictionaries, module imports with fresh tables and merge.
   No proofs here. *)
From Coq Require Import String Ascii ZArith List Bool.
From FcpV Require Import Schema.Types Front.Lexer Front.Parser.
Import ListNotations.
Open Scope string_scope.

(* ---------- the tree the front end returns ---------- *)
Inductive fval := FInt (z : Z) | FFloat (bits : Z) | FStr (s : string) | FArr (l : list fval).

Record ffield := { ff_name : string; ff_id : Z; ff_type : sty; ff_unit : option string;
                   ff_min : option Z; ff_max : option Z }.
Record fstruct := { fs_name : string; fs_fields : list ffield }.
Record fsignal := { fg_name : string; fg_fields : list (string * fval) }.
Record fimpl := { fi_name : string; fi_protocol : string; fi_type : string;
                  fi_fields : list (string * fval); fi_signals : list fsignal }.
Record fmethod := { fm_name : string; fm_id : Z; fm_input : string; fm_output : string }.
Record fservice := { fv_name : string; fv_id : Z; fv_methods : list fmethod }.
Record fdevice := { fd_name : string; fd_fields : list (string * fval) }.
Record front := { f_structs : list fstruct; f_enums : list (string * list (string * Z));
                  f_impls : list fimpl; f_services : list fservice; f_devices : list fdevice }.

Definition front_empty : front :=
  {| f_structs := []; f_enums := []; f_impls := []; f_services := []; f_devices := [] |}.

(* Ok / an error value whose diagnostic mentions these names / an exception
   inside a transformer callback (it aborts the transformation of the whole
   file, pre-empting any error value) / outside the model *)
Inductive eres (A : Type) := EOk (a : A) | EErr (names : list string) | EAbort | EDomain.
Arguments EOk {A} a. Arguments EErr {A} names. Arguments EAbort {A}. Arguments EDomain {A}.

Definition ebind {A B} (r : eres A) (k : A -> eres B) : eres B :=
  match r with EOk a => k a | EErr n => EErr n | EAbort => EAbort | EDomain => EDomain end.
Definition eadd {A} (name : string) (r : eres A) : eres A :=
  match r with EErr n => EErr (n ++ [name])%list | x => x end.

(* every element is processed: an abort anywhere wins over an earlier error value *)
Definition emapM {A B} (f : A -> eres B) : list A -> eres (list B) :=
  fix go l := match l with
              | [] => EOk []
              | x :: l' =>
                  match f x, go l' with
                  | EDomain, _ | _, EDomain => EDomain
                  | EAbort, _ | _, EAbort => EAbort
                  | EErr n, _ => EErr n
                  | EOk _, EErr n => EErr n
                  | EOk y, EOk ys => EOk (y :: ys)
                  end
              end.

(* both parts are evaluated (children before the callback that fails) *)
Definition eboth {A B C} (a : eres A) (b : eres B) (k : A -> B -> eres C) : eres C :=
  match a, b with
  | EDomain, _ | _, EDomain => EDomain
  | EAbort, _ | _, EAbort => EAbort
  | EErr n, _ => EErr n
  | _, EErr n => EErr n
  | EOk x, EOk y => k x y
  end.

(* float(lexeme) comes from the oracle table of the case *)
Definition oracle := list (string * Z).
Definition float_bits (o : oracle) (lx : string) : eres Z :=
  match lookup lx o with Some b => EOk b | None => EDomain end.

Definition conv_val (o : oracle) : pval -> eres fval :=
  fix cv (v : pval) : eres fval :=
  match v with
  | PVInt z => EOk (FInt z)
  | PVFloat l => ebind (float_bits o l) (fun b => EOk (FFloat b))
  | PVStr s => EOk (FStr s)
  | PVArr l => ebind (emapM cv l) (fun l' => EOk (FArr l'))
  end.

(* dict(pairs): the first occurrence fixes the position, the last one the value *)
Fixpoint dict_set {A} (k : string) (v : A) (d : list (string * A)) : list (string * A) :=
  match d with
  | [] => [(k, v)]
  | (k', v') :: d' => if String.eqb k k' then (k', v) :: d' else (k', v') :: dict_set k v d'
  end.
Definition dict_of {A} (l : list (string * A)) : list (string * A) :=
  fold_left (fun d kv => dict_set (fst kv) (snd kv) d) l [].

Definition conv_fields (o : oracle) (l : list (string * pval)) : eres (list (string * fval)) :=
  ebind (emapM (fun kv => ebind (conv_val o (snd kv)) (fun v => EOk (fst kv, v))) l) (fun l' => EOk (dict_of l')).

(* ---------- types: composed_type looks the name up in the tables so far ---------- *)
Definition mem (s : string) (l : list string) : bool := existsb (String.eqb s) l.

Fixpoint elab_ty (structs enums : list string) (t : pty) : eres sty :=
  match t with
  | PTU n => EOk (SU n) | PTI n => EOk (SI n) | PTF32 => EOk SF32 | PTF64 => EOk SF64 | PTStr => EOk SStr
  | PTRef n => if mem n structs then EOk (SStructRef n) else if mem n enums then EOk (SEnumRef n) else EErr [n]
  | PTArr t' (PVInt z) =>
      ebind (elab_ty structs enums t') (fun r => if (z <? 0)%Z then EDomain else EOk (SArr r (Z.to_nat z)))
  | PTArr _ _ => EDomain                       (* int(float literal): not modelled *)
  | PTDyn t' => ebind (elab_ty structs enums t') (fun r => EOk (SDyn r))
  | PTOpt t' => ebind (elab_ty structs enums t') (fun r => EOk (SOpt r))
  end.

(* _convert_params: range -> min/max (both must be floats), unit -> str; later
   parameters override earlier ones; anything else raises inside the transformer *)
Record fparams := { fp_unit : option string; fp_min : option Z; fp_max : option Z }.

Definition conv_param (o : oracle) (acc : fparams) (p : pparam) : eres fparams :=
  match pp_name p, pp_args p with
  | "unit", PVStr s :: _ => EOk {| fp_unit := Some s; fp_min := fp_min acc; fp_max := fp_max acc |}
  | "range", PVFloat a :: PVFloat b :: _ =>
      ebind (float_bits o a) (fun x => ebind (float_bits o b) (fun y =>
        EOk {| fp_unit := fp_unit acc; fp_min := Some x; fp_max := Some y |}))
  | _, _ => EAbort
  end.

(* parameters are first collected into a dict by name (last wins), then converted in dict order *)
Definition conv_params (o : oracle) (ps : list pparam) : eres fparams :=
  let d := dict_of (map (fun p => (pp_name p, p)) ps) in
  fold_left (fun acc kv => ebind acc (fun a => conv_param o a (snd kv))) d
            (EOk {| fp_unit := None; fp_min := None; fp_max := None |}).

(* a VisitError-class problem anywhere aborts the whole transformation: these
   are detected in a first pass so that they pre-empt resolution errors *)
Definition is_int (v : pval) : bool := match v with PVInt _ => true | _ => false end.

Definition elab_field (o : oracle) (structs enums : list string) (f : pfield) : eres ffield :=
  match pf_id f with
  | PVInt i =>
      eboth (conv_params o (pf_params f)) (elab_ty structs enums (pf_type f)) (fun ps t =>
        EOk {| ff_name := pf_name f; ff_id := i; ff_type := t; ff_unit := fp_unit ps;
               ff_min := fp_min ps; ff_max := fp_max ps |})
  | _ => EAbort
  end.

Definition default_impl (name : string) : fimpl :=
  {| fi_name := name; fi_protocol := "default"; fi_type := name; fi_fields := []; fi_signals := [] |}.

Definition split_body (o : oracle) (b : list pimpl_item)
  : eres (list (string * fval) * list fsignal) :=
  let exts := flat_map (fun x => match x with PExt k v => [(k, v)] | _ => [] end) b in
  let sigs := flat_map (fun x => match x with PSig n fs => [(n, fs)] | _ => [] end) b in
  ebind (conv_fields o exts) (fun fs =>
  ebind (emapM (fun s => ebind (conv_fields o (snd s)) (fun g => EOk {| fg_name := fst s; fg_fields := g |})) sigs)
        (fun gs => EOk (fs, gs))).

Definition front_merge (a b : front) : front :=
  {| f_structs := (f_structs a ++ f_structs b)%list; f_enums := (f_enums a ++ f_enums b)%list;
     f_impls := (f_impls a ++ f_impls b)%list; f_services := (f_services a ++ f_services b)%list;
     f_devices := (f_devices a ++ f_devices b)%list |}.

(* ---------- files ---------- *)
Definition path := list string.                 (* directory components, then the file name *)
Definition files := list (path * string).

Definition path_eqb (a b : path) : bool :=
  (fix go a b := match a, b with
                 | [], [] => true
                 | x :: a', y :: b' => String.eqb x y && go a' b'
                 | _, _ => false end) a b.

Definition read_file (fs : files) (p : path) : option string :=
  option_map snd (find (fun f => path_eqb (fst f) p) fs).

Definition dir_of (p : path) : path := removelast p.
Definition base_of (p : path) : string := last p "".

(* mod a.b.c;  ->  <dir of importer>/a/b/c.fcp *)
Definition mod_target (importer : path) (parts : list string) : path :=
  (dir_of importer ++ removelast parts ++ [(last parts "" ++ ".fcp")%string])%list.

(* ---------- the transformer ---------- *)
(* the tree so far; type names visible so far *)
Definition names_structs (f : front) := map fs_name (f_structs f).
Definition names_enums (f : front) := map fst (f_enums f).

Definition elab_item (o : oracle)
  (recur : path -> eres front)                  (* elaborate another file (fresh tables) *)
  (self : path) (acc : front) (it : item) : eres front :=
  match it with
  | IStruct name fs =>
      eadd name (ebind (emapM (elab_field o (names_structs acc) (names_enums acc)) fs) (fun fs' =>
        EOk {| f_structs := (f_structs acc ++ [ {| fs_name := name; fs_fields := fs' |} ])%list;
               f_enums := f_enums acc; f_impls := (f_impls acc ++ [default_impl name])%list;
               f_services := f_services acc; f_devices := f_devices acc |}))
  | IEnum name vals =>
      match vals with
      | [] => EAbort                              (* assert len(enumeration) != 0 *)
      | _ =>
          ebind (emapM (fun kv => match snd kv with PVInt z => EOk (fst kv, z) | _ => EAbort end) vals) (fun vs =>
            EOk {| f_structs := f_structs acc; f_enums := (f_enums acc ++ [(name, vs)])%list; f_impls := f_impls acc;
                   f_services := f_services acc; f_devices := f_devices acc |})
      end
  | IImpl proto ty nm body =>
      ebind (split_body o body) (fun fg =>
        EOk {| f_structs := f_structs acc; f_enums := f_enums acc;
               f_impls := (f_impls acc ++ [ {| fi_name := match nm with Some n => n | None => ty end;
                                              fi_protocol := proto; fi_type := ty;
                                              fi_fields := fst fg; fi_signals := snd fg |} ])%list;
               f_services := f_services acc; f_devices := f_devices acc |})
  | IService name sid ms =>
      match sid with
      | PVInt i =>
          ebind (emapM (fun m => match pm_id m with
                                 | PVInt j => EOk {| fm_name := pm_name m; fm_id := j; fm_input := pm_input m; fm_output := pm_output m |}
                                 | _ => EAbort end) ms) (fun ms' =>
            EOk {| f_structs := f_structs acc; f_enums := f_enums acc; f_impls := f_impls acc;
                   f_services := (f_services acc ++ [ {| fv_name := name; fv_id := i; fv_methods := ms' |} ])%list;
                   f_devices := f_devices acc |})
      | _ => EAbort
      end
  | IDevice name fs =>
      ebind (conv_fields o fs) (fun fs' =>
        EOk {| f_structs := f_structs acc; f_enums := f_enums acc; f_impls := f_impls acc; f_services := f_services acc;
               f_devices := (f_devices acc ++ [ {| fd_name := name; fd_fields := fs' |} ])%list |})
  | IMod parts =>
      let target := mod_target self parts in
      match recur target with
      | EOk m => EOk (front_merge acc m)
      | EErr n => EErr (n ++ [base_of target])%list
      | EAbort => EErr [base_of target]           (* mod_expr turns the module's exception into an error value *)
      | EDomain => EDomain
      end
  end.

(* items in order; every item is transformed even after a failure (the first
   error in source order is the one reported), so failures do not stop the
   tables from growing *)
Fixpoint elab_items (o : oracle) (recur : path -> eres front) (self : path) (acc : front)
  (first_err : option (list string)) (its : list item) : eres front :=
  match its with
  | [] => match first_err with Some n => EErr n | None => EOk acc end
  | it :: its' =>
      match elab_item o recur self acc it with
      | EOk acc' => elab_items o recur self acc' first_err its'
      | EErr n => elab_items o recur self acc (match first_err with Some e => Some e | None => Some n end) its'
      | EAbort => EAbort
      | EDomain => EDomain
      end
  end.

(* one file: read, parse, check the version, transform; [fuel] bounds the import depth *)
Fixpoint elab_file (fuel : nat) (o : oracle) (fs : files) (p : path) : eres front :=
  match fuel with
  | O => EDomain
  | S fuel' =>
      match read_file fs p with
      | None => EErr [base_of p]                                  (* File not found: <name> *)
      | Some src =>
          match parse src with
          | None => EErr [base_of p]                              (* syntax error, cited in that file *)
          | Some (ver, its) =>
              match elab_items o (elab_file fuel' o fs) p front_empty
                      (if String.eqb ver "3" then None else Some []) its with
              | EAbort => EErr [base_of p]            (* "Invalid declaration in <file>" *)
              | r => eadd (base_of p) r
              end
          end
      end
  end.

Definition front_end (o : oracle) (fs : files) (root : path) : eres front := elab_file 8 o fs root.
