From Coq Require Import String Ascii ZArith List Bool Lia.
From FcpV Require Import Schema.Types Front.Lexer Front.Parser Front.Elab.
Import ListNotations.
Open Scope string_scope.

(* ---------- references inside a type ---------- *)
Fixpoint prefs (t : pty) : list string :=
  match t with
  | PTRef n => [n]
  | PTArr t' _ | PTDyn t' | PTOpt t' => prefs t'
  | _ => []
  end.

(* every reference of an elaborated type: (name, tagged as struct?) *)
Fixpoint srefs (t : sty) : list (string * bool) :=
  match t with
  | SStructRef n => [(n, true)]
  | SEnumRef n => [(n, false)]
  | SArr t' _ | SDyn t' | SOpt t' => srefs t'
  | _ => []
  end.

(* a reference is good w.r.t. the tables: a struct reference names a known
   struct; an enum reference names a known enum that is not shadowed by a struct *)
Definition ref_ok (ss es : list string) (r : string * bool) : Prop :=
  if snd r then In (fst r) ss else In (fst r) es /\ ~ In (fst r) ss.

Lemma mem_In s l : mem s l = true <-> In s l.
Proof.
  unfold mem. rewrite existsb_exists. split.
  - intros (x & Hx & E). apply String.eqb_eq in E. now subst.
  - intros H. exists s. split; [exact H|apply String.eqb_refl].
Qed.

(* composed_type never produces a dangling or mis-kinded reference, at any depth *)
Lemma elab_ty_refs ss es t : forall r, elab_ty ss es t = EOk r -> Forall (ref_ok ss es) (srefs r).
Proof.
  induction t as [n|n| | | |name|t IH size|t IH|t IH]; intros r H; cbn in H; try (inversion H; subst; constructor).
  - destruct (mem name ss) eqn:E1.
    + inversion H; subst. constructor; [|constructor]. unfold ref_ok. cbn. now apply mem_In.
    + destruct (mem name es) eqn:E2; [|discriminate]. inversion H; subst. constructor; [|constructor].
      unfold ref_ok. cbn. split; [now apply mem_In|]. intros Hc. apply mem_In in Hc. congruence.
  - destruct size; try discriminate. destruct (elab_ty ss es t) as [r'| | |]; cbn in H; try discriminate.
    destruct (z <? 0)%Z; [discriminate|]. inversion H; subst. cbn. now apply IH.
  - destruct (elab_ty ss es t) as [r'| | |]; cbn in H; try discriminate. inversion H; subst. cbn. now apply IH.
  - destruct (elab_ty ss es t) as [r'| | |]; cbn in H; try discriminate. inversion H; subst. cbn. now apply IH.
Qed.

(* an error value of composed_type names a reference that really is unknown *)
Lemma elab_ty_err ss es t : forall ns, elab_ty ss es t = EErr ns ->
  exists n, ns = [n] /\ In n (prefs t) /\ ~ In n ss /\ ~ In n es.
Proof.
  induction t as [n|n| | | |name|t IH size|t IH|t IH]; intros ns H; cbn in H; try discriminate.
  - destruct (mem name ss) eqn:E1; [discriminate|]. destruct (mem name es) eqn:E2; [discriminate|].
    inversion H; subst. exists name. repeat split; [now left| |]; intros Hc; apply mem_In in Hc; congruence.
  - destruct size; try discriminate. destruct (elab_ty ss es t) as [r'|ns'| |] eqn:E; cbn in H; try discriminate.
    + destruct (z <? 0)%Z; discriminate.
    + inversion H; subst. now apply IH.
  - destruct (elab_ty ss es t) as [r'|ns'| |] eqn:E; cbn in H; try discriminate. inversion H; subst. now apply IH.
  - destruct (elab_ty ss es t) as [r'|ns'| |] eqn:E; cbn in H; try discriminate. inversion H; subst. now apply IH.
Qed.

(* ---------- the invariant of the growing tree ---------- *)
Definition field_ok (ss es : list string) (f : ffield) : Prop := Forall (ref_ok ss es) (srefs (ff_type f)).

(* struct references point to structs that come EARLIER in the list (no forward,
   no self reference); enum references to enums of the final tree *)
Fixpoint ord_structs (seen es : list string) (l : list fstruct) : Prop :=
  match l with
  | [] => True
  | s :: l' => Forall (fun f : ffield => Forall (fun r : string * bool => if snd r then In (fst r) seen else In (fst r) es) (srefs (ff_type f))) (fs_fields s)
               /\ ord_structs (seen ++ [fs_name s])%list es l'
  end.

Definition wf_front (f : front) : Prop := ord_structs [] (names_enums f) (f_structs f).

Lemma ord_mono seen seen' es es' l :
  (forall x, In x seen -> In x seen') -> (forall x, In x es -> In x es') ->
  ord_structs seen es l -> ord_structs seen' es' l.
Proof.
  revert seen seen'. induction l as [|s l IH]; intros seen seen' Hs He H; [exact I|].
  cbn in *. destruct H as [H1 H2]. split.
  - eapply Forall_impl; [|exact H1]. intros f Hf. eapply Forall_impl; [|exact Hf].
    intros r. cbv beta. destruct (snd r); auto.
  - eapply IH; [| |exact H2]; auto. intros x Hx. apply in_app_iff in Hx. apply in_app_iff. destruct Hx; auto.
Qed.

Lemma ord_app seen es a b :
  ord_structs seen es (a ++ b)%list <-> ord_structs seen es a /\ ord_structs (seen ++ map fs_name a)%list es b.
Proof.
  revert seen. induction a as [|s a IH]; intros seen; cbn.
  - rewrite app_nil_r. tauto.
  - rewrite IH, <- app_assoc. cbn. tauto.
Qed.

Definition recur_ok (recur : path -> eres front) : Prop := forall p m, recur p = EOk m -> wf_front m.

Lemma emapM_ok {A B} (f : A -> eres B) l : forall r, emapM f l = EOk r -> Forall2 (fun x y => f x = EOk y) l r.
Proof.
  induction l as [|x l IH]; intros r H; cbn in H; [inversion H; constructor|].
  destruct (f x) as [y| | |] eqn:Ex; destruct (emapM f l) as [ys| | |]; try discriminate.
  inversion H; subst. constructor; auto.
Qed.

Lemma elab_field_refs o ss es pf f : elab_field o ss es pf = EOk f -> field_ok ss es f.
Proof.
  unfold elab_field. destruct (pf_id pf); try discriminate.
  destruct (conv_params o (pf_params pf)) as [ps| | |]; destruct (elab_ty ss es (pf_type pf)) as [t| | |] eqn:Et;
    cbn; try discriminate.
  intros H. inversion H; subst. unfold field_ok. cbn. eapply elab_ty_refs; eauto.
Qed.

Lemma names_enums_merge a b : names_enums (front_merge a b) = (names_enums a ++ names_enums b)%list.
Proof. unfold names_enums. cbn. now rewrite map_app. Qed.

Lemma elab_item_wf o recur self acc it acc' :
  recur_ok recur -> wf_front acc -> elab_item o recur self acc it = EOk acc' -> wf_front acc'.
Proof.
  intros Hr Hacc H. unfold wf_front in *. destruct it as [name fs|name vals|proto ty nm body|name sid ms|name fs|parts]; cbn in H.
  - (* struct *)
    destruct (emapM (elab_field o (names_structs acc) (names_enums acc)) fs) as [fs'| | |] eqn:E; cbn in H; try discriminate.
    inversion H; subst; clear H. unfold names_enums. cbn [f_structs f_enums]. fold (names_enums acc).
    apply ord_app. split; [exact Hacc|]. cbn. split; [|exact I].
    apply emapM_ok in E. clear -E. induction E as [|pf f l l' Hf _ IH]; constructor; [|exact IH].
    apply elab_field_refs in Hf. unfold field_ok in Hf. eapply Forall_impl; [|exact Hf].
    intros r Hrk. unfold ref_ok in Hrk. destruct (snd r).
    + exact Hrk.
    + destruct Hrk as [Hrk _]. exact Hrk.
  - (* enum *)
    destruct vals as [|v vals]; [discriminate|].
    destruct (emapM _ (v :: vals)) as [vs| | |]; cbn in H; try discriminate. inversion H; subst; clear H.
    unfold names_enums. cbn [f_structs f_enums]. rewrite map_app.
    eapply ord_mono; [| |exact Hacc]; auto. intros x Hx. apply in_app_iff. now left.
  - destruct (split_body o body) as [fg| | |]; cbn in H; try discriminate. inversion H; subst. exact Hacc.
  - destruct sid; try discriminate. destruct (emapM _ ms) as [ms'| | |]; cbn in H; try discriminate. inversion H; subst. exact Hacc.
  - destruct (conv_fields o fs) as [fs'| | |]; cbn in H; try discriminate. inversion H; subst. exact Hacc.
  - (* mod *)
    destruct (recur (mod_target self parts)) as [m| | |] eqn:Em; try discriminate. inversion H; subst; clear H.
    specialize (Hr _ _ Em). unfold wf_front in Hr.
    cbn [front_merge f_structs]. rewrite names_enums_merge. apply ord_app. split.
    + eapply ord_mono; [| |exact Hacc]; auto. intros x Hx. apply in_app_iff. now left.
    + eapply ord_mono; [| |exact Hr]; [intros x []|]. intros x Hx. apply in_app_iff. now right.
Qed.

Lemma elab_items_wf o recur self : forall its acc fe f,
  recur_ok recur -> wf_front acc -> elab_items o recur self acc fe its = EOk f -> wf_front f.
Proof.
  induction its as [|it its IH]; intros acc fe f Hr Hacc H; cbn in H.
  - destruct fe; [discriminate|]. now inversion H; subst.
  - destruct (elab_item o recur self acc it) as [acc'|n| |] eqn:E; try discriminate.
    + eapply IH; [exact Hr| |exact H]. eapply elab_item_wf; eauto.
    + eapply IH; eauto.
Qed.

Lemma elab_file_wf o fs : forall fuel, recur_ok (elab_file fuel o fs).
Proof.
  induction fuel as [|fuel IH]; intros p m H; cbn in H; [discriminate|].
  destruct (read_file fs p) as [src|]; [|discriminate].
  destruct (parse src) as [[ver its]|]; [|discriminate].
  destruct (elab_items o (elab_file fuel o fs) p front_empty _ its) as [f| | |] eqn:E; cbn in H; try discriminate.
  inversion H; subst. eapply elab_items_wf; [exact IH| |exact E]. exact I.
Qed.

(* every accepted schema: each struct reference resolves to a struct declared
   earlier (in elaboration order, imports included), each enum reference to a
   declared enum, at any nesting depth *)
Theorem accepted_refs_resolve_lemma o fs root f : front_end o fs root = EOk f -> wf_front f.
Proof. unfold front_end. apply elab_file_wf. Qed.

(* ---------- C20: importing a module = inlining its declarations ---------- *)
(* elaborating with larger tables gives the same type, provided no struct of
   the importer captures a name the module uses as an enum *)
Lemma mem_app s a b : mem s (a ++ b)%list = mem s a || mem s b.
Proof. unfold mem. apply existsb_app. Qed.

Lemma elab_ty_frame ss1 es1 ss2 es2 t : forall r,
  (forall n, In n ss1 -> ~ In n es2) ->
  elab_ty ss2 es2 t = EOk r -> elab_ty (ss1 ++ ss2)%list (es1 ++ es2)%list t = EOk r.
Proof.
  intros r Hcap. revert r.
  induction t as [n|n| | | |name|t IH size|t IH|t IH]; intros r H; cbn in H |- *; try exact H.
  - rewrite !mem_app. destruct (mem name ss2) eqn:E2.
    + rewrite orb_true_r. exact H.
    + destruct (mem name es2) eqn:E3; [|discriminate].
      assert (E1 : mem name ss1 = false).
      { destruct (mem name ss1) eqn:E1; [|reflexivity]. apply mem_In in E1, E3. exfalso. exact (Hcap _ E1 E3). }
      rewrite E1. cbn. rewrite orb_true_r. exact H.
  - destruct size; try discriminate. destruct (elab_ty ss2 es2 t) as [r'| | |]; cbn in H; try discriminate.
    rewrite (IH r' eq_refl). exact H.
  - destruct (elab_ty ss2 es2 t) as [r'| | |]; cbn in H; try discriminate. rewrite (IH r' eq_refl). exact H.
  - destruct (elab_ty ss2 es2 t) as [r'| | |]; cbn in H; try discriminate. rewrite (IH r' eq_refl). exact H.
Qed.

Lemma elab_field_frame o ss1 es1 ss2 es2 pf f :
  (forall n, In n ss1 -> ~ In n es2) ->
  elab_field o ss2 es2 pf = EOk f -> elab_field o (ss1 ++ ss2)%list (es1 ++ es2)%list pf = EOk f.
Proof.
  intros Hcap. unfold elab_field. destruct (pf_id pf); try discriminate.
  destruct (conv_params o (pf_params pf)) as [ps| | |]; destruct (elab_ty ss2 es2 (pf_type pf)) as [t| | |] eqn:Et;
    cbn; try discriminate.
  intros H. rewrite (elab_ty_frame ss1 es1 ss2 es2 _ t Hcap Et). exact H.
Qed.

Lemma emapM_ext_ok {A B} (f g : A -> eres B) l r :
  (forall x y, In x l -> f x = EOk y -> g x = EOk y) -> emapM f l = EOk r -> emapM g l = EOk r.
Proof.
  revert r. induction l as [|x l IH]; intros r Hfg H; cbn in H |- *; [exact H|].
  destruct (f x) as [y| | |] eqn:Ex; destruct (emapM f l) as [ys| | |] eqn:El; try discriminate.
  rewrite (Hfg x y (or_introl eq_refl) Ex), (IH ys (fun a b Ha => Hfg a b (or_intror Ha)) eq_refl). exact H.
Qed.

Definition is_mod (it : item) : bool := match it with IMod _ => true | _ => false end.

Lemma front_merge_assoc a b c : front_merge (front_merge a b) c = front_merge a (front_merge b c).
Proof. unfold front_merge. cbn. now rewrite !app_assoc. Qed.

(* one declaration, elaborated on top of [acc ++ a] instead of [a] *)
Lemma elab_item_frame o recur self self' acc a it a' :
  is_mod it = false ->
  (forall n, In n (names_structs acc) -> ~ In n (names_enums a)) ->
  elab_item o recur self a it = EOk a' ->
  elab_item o recur self' (front_merge acc a) it = EOk (front_merge acc a').
Proof.
  intros Hm Hcap H. destruct it as [name fs|name vals|proto ty nm body|name sid ms|name fs|parts]; try discriminate; cbn in H |- *.
  - destruct (emapM (elab_field o (names_structs a) (names_enums a)) fs) as [fs'| | |] eqn:E; cbn in H; try discriminate.
    inversion H; subst; clear H.
    assert (E' : emapM (elab_field o (map fs_name (f_structs acc ++ f_structs a)%list) (map fst (f_enums acc ++ f_enums a)%list)) fs = EOk fs').
    { eapply emapM_ext_ok; [|exact E]. intros x y _ Hx. rewrite !map_app.
      now apply elab_field_frame. }
    rewrite E'. cbn. unfold front_merge. cbn. now rewrite !app_assoc.
  - destruct vals as [|v vals]; [discriminate|].
    destruct (emapM _ (v :: vals)) as [vs| | |]; cbn in H |- *; try discriminate. inversion H; subst.
    unfold front_merge. cbn. now rewrite !app_assoc.
  - destruct (split_body o body) as [fg| | |]; cbn in H |- *; try discriminate. inversion H; subst.
    unfold front_merge. cbn. now rewrite !app_assoc.
  - destruct sid; try discriminate. destruct (emapM _ ms) as [ms'| | |]; cbn in H |- *; try discriminate. inversion H; subst.
    unfold front_merge. cbn. now rewrite !app_assoc.
  - destruct (conv_fields o fs) as [fs'| | |]; cbn in H |- *; try discriminate. inversion H; subst.
    unfold front_merge. cbn. now rewrite !app_assoc.
Qed.

(* enum names only grow while elaborating *)
Lemma elab_item_enums_grow o recur self a it a' :
  is_mod it = false -> elab_item o recur self a it = EOk a' -> forall n, In n (names_enums a) -> In n (names_enums a').
Proof.
  intros Hm H n Hn. destruct it as [name fs|name vals|proto ty nm body|name sid ms|name fs|parts]; try discriminate; cbn in H.
  - destruct (emapM _ fs) as [fs'| | |]; cbn in H; try discriminate. now inversion H; subst.
  - destruct vals as [|v vals]; [discriminate|]. destruct (emapM _ (v :: vals)) as [vs| | |]; cbn in H; try discriminate.
    inversion H; subst. unfold names_enums. cbn. rewrite map_app. apply in_app_iff. now left.
  - destruct (split_body o body) as [fg| | |]; cbn in H; try discriminate. now inversion H; subst.
  - destruct sid; try discriminate. destruct (emapM _ ms) as [ms'| | |]; cbn in H; try discriminate. now inversion H; subst.
  - destruct (conv_fields o fs) as [fs'| | |]; cbn in H; try discriminate. now inversion H; subst.
Qed.

Lemma elab_items_ok_none o recur self : forall its acc fe f, elab_items o recur self acc fe its = EOk f -> fe = None.
Proof.
  induction its as [|it its IH]; intros acc fe f H; cbn in H.
  - destruct fe; [discriminate|reflexivity].
  - destruct (elab_item o recur self acc it) as [acc'|n| |]; try discriminate.
    + eapply IH; eauto.
    + apply IH in H. destruct fe; discriminate.
Qed.

Lemma elab_items_enums_grow o recur self : forall its a m,
  forallb (fun it => negb (is_mod it)) its = true ->
  elab_items o recur self a None its = EOk m -> forall n, In n (names_enums a) -> In n (names_enums m).
Proof.
  induction its as [|it its IH]; intros a m Hnm H n Hn; cbn in H; [now inversion H; subst|].
  cbn in Hnm. apply andb_true_iff in Hnm. destruct Hnm as [Hm Hnm]. apply negb_true_iff in Hm.
  destruct (elab_item o recur self a it) as [a'|ns| |] eqn:E; try discriminate.
  - eapply IH; [exact Hnm|exact H|]. eapply elab_item_enums_grow; eauto.
  - apply elab_items_ok_none in H. discriminate.
Qed.

(* The declarations of a module (which itself imports nothing), elaborated in
   place on top of what the importer has so far, give exactly the importer's
   tree merged with the module's own tree *)
Theorem inline_equals_merge o recur self self' : forall its acc a m,
  forallb (fun it => negb (is_mod it)) its = true ->
  (forall n, In n (names_structs acc) -> ~ In n (names_enums m)) ->
  elab_items o recur self a None its = EOk m ->
  elab_items o recur self' (front_merge acc a) None its = EOk (front_merge acc m).
Proof.
  induction its as [|it its IH]; intros acc a m Hnm Hcap H; cbn in H |- *; [now inversion H; subst|].
  cbn in Hnm. apply andb_true_iff in Hnm. destruct Hnm as [Hm Hnm]. apply negb_true_iff in Hm.
  destruct (elab_item o recur self a it) as [a'|ns| |] eqn:E; try discriminate.
  2:{ apply elab_items_ok_none in H. discriminate. }
  rewrite (elab_item_frame o recur self self' acc a it a' Hm); [|intros n Hn Hc; apply (Hcap n Hn);
    eapply elab_items_enums_grow; [exact Hnm|exact H|]; eapply elab_item_enums_grow; eauto|exact E].
  now apply IH.
Qed.
