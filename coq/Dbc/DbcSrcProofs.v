(* The translated _make_signals (gen/PyDbc.v) is the model's make_signals (Dbc/DbcModel.v): same signals, same message length,
   and it raises exactly when the model says None. *)
From Coq Require Import String ZArith List Bool.
From FcpV Require Import Schema.Types Layout.Packed Layout.PackedProofs Verifier.Checks Py.BufferLib Dbc.DbcModel Dbc.DbcLib gen.PyDbc.
Import ListNotations.
Local Open Scope Z_scope.

Definition res_of {A : Type} (r : pyres A) : option A := match r with POk a => Some a | PRaise _ => None end.

Lemma filter_some_is_mux ps : filter_some (map (fun p => ext_str p "mux_signal"%string) ps) = mux_signals_of ps.
Proof. unfold filter_some, mux_signals_of. induction ps as [|p ps IH]; [reflexivity|]. cbn [map flat_map]. now rewrite IH. Qed.

(* the signal record the loop appends is the model's *)
Lemma big_flag s : String.eqb (if String.eqb s "big" then "big_endian" else "little_endian")%string "big_endian" = String.eqb s "big".
Proof. destruct (String.eqb s "big"); reflexivity. Qed.

Lemma start_bit (s : string) (a : Z) : (if negb (String.eqb s "little") then a + 7 else a) = (if String.eqb s "little" then a else a + 7).
Proof. destruct (String.eqb s "little"); reflexivity. Qed.

(* the loop: signals in order, dlc of the last piece *)
Lemma loop_is_map (f : piece -> dsignal) (d : piece -> Z) : forall ps acc0 d0,
  fold_left (fun (acc : list dsignal * Z) p => let '(signals, dlc) := acc in (signals ++ [f p], d p)) ps (acc0, d0)
  = (acc0 ++ map f ps, match rev ps with [] => d0 | lastp :: _ => d lastp end).
Proof.
  induction ps as [|p ps IH]; intros acc0 d0; [cbn; now rewrite app_nil_r|].
  cbn [fold_left map]. rewrite IH. rewrite <- app_assoc. cbn [app]. f_equal.
  cbn [rev]. destruct (rev ps) as [|q qs] eqn:E; reflexivity.
Qed.

Theorem make_signals_is_model ps : res_of (py_make_signals ps) = make_signals ps.
Proof.
  unfold py_make_signals, make_signals, py_last. destruct (rev ps) as [|lastp rest] eqn:Er; [reflexivity|].
  cbn [pbind]. destruct (64 <? pstart lastp + plen lastp) eqn:Eg; [reflexivity|].
  rewrite filter_some_is_mux.
  rewrite (loop_is_map
             (fun piece => {| gname := dbc_name piece;
                              gstart := if negb (String.eqb (pend piece) "little") then pstart piece + 7 else pstart piece;
                              glen := plen piece;
                              gbig := String.eqb (if String.eqb (pend piece) "big" then "big_endian" else "little_endian")%string "big_endian";
                              gsigned := is_signed_ty (pty piece); gfloat := is_float_ty (pty piece); gunit := punit piece;
                              gismux := existsb (String.eqb (pname piece)) (mux_signals_of ps);
                              gmuxids := option_map (fun mux_count => zrange mux_count) (ext_int piece "mux_count");
                              gmuxsig := ext_str piece "mux_signal" |})
             (fun piece => ceil8 (pstart piece + plen piece))).
  rewrite Er. cbn [res_of app]. f_equal. f_equal.
  apply map_ext. intros p. unfold sig_of_piece. rewrite big_flag, start_bit. reflexivity.
Qed.

(* ---------- write_dbc ---------- *)
Definition dres_of {A : Type} (r : dres A) : option A := match r with DOk a => Some a | _ => None end.
(* the model keeps the messages per bus (the node list is not part of any property) *)
Definition drop_nodes (bs : busmap) : list (string * list dmessage) := map (fun b => (fst b, fst (snd b))) bs.

Lemma drop_append_message bs bus m : drop_nodes (bus_append_message bs bus m) = add_to_bus bus m (drop_nodes bs).
Proof.
  induction bs as [|[b [ms ns]] bs IH]; [reflexivity|]. cbn [bus_append_message drop_nodes map add_to_bus fst snd].
  destruct (String.eqb b bus); cbn [map fst snd]; [reflexivity|]. f_equal. exact IH.
Qed.

Lemma append_message_has_bus bs bus m : In bus (map fst (bus_append_message bs bus m)).
Proof.
  induction bs as [|[b [ms ns]] bs IH]; [left; reflexivity|]. cbn [bus_append_message].
  destruct (String.eqb_spec b bus) as [->|N]; cbn [map fst In]; [left; reflexivity|right; exact IH].
Qed.

Lemma drop_append_node bs bus n : In bus (map fst bs) -> drop_nodes (bus_append_node bs bus n) = drop_nodes bs.
Proof.
  induction bs as [|[b [ms ns]] bs IH]; intros Hin; [contradiction|]. cbn [bus_append_node drop_nodes map fst snd].
  destruct (String.eqb_spec b bus) as [->|N]; cbn [map fst snd]; [reflexivity|]. f_equal. apply IH.
  cbn [map fst In] in Hin. destruct Hin as [E|Hin]; [contradiction|exact Hin].
Qed.

Lemma write_loop sc : forall ims bs e,
  option_map (fun st : busmap * encoder => drop_nodes (fst st))
    (dres_of (dfor (filter (fun i => String.eqb (iprotocol i) "can") ims) (bs, e)
       (fun st impl => let '(buses, encoder) := st in
          let bus := bus_of impl in
          match generate true sc encoder impl with
          | (encoder, None) => DRaise
          | (encoder, Some encoding) =>
              dbind (dlift (py_make_signals encoding)) (fun sd => let '(signals, dlc) := sd in
              let id := impl_int impl "id" in
              match id with
              | None => DErr
              | Some id =>
                  let buses := bus_append_message buses bus {| mid := id; mname := iname impl; mdlc := dlc; msignals := signals |} in
                  let device := impl_str impl "device" in
                  let buses := match device with
                               | None => buses
                               | Some device => if negb (existsb (String.eqb device) (bus_nodes buses bus)) then bus_append_node buses bus device else buses
                               end in
                  DOk (buses, encoder)
              end)
          end)))
  = write_msgs sc ims (drop_nodes bs).
Proof.
  induction ims as [|im ims IH]; intros bs e; [reflexivity|].
  cbn [filter write_msgs]. destruct (String.eqb (iprotocol im) "can") eqn:Ep; cbn [negb]; [|apply IH].
  cbn [dfor]. cbv zeta.
  rewrite <- (generate_history_independent_lemma true sc e encoder_init im).
  destruct (generate true sc e im) as [e' [ps|]]; cbn [snd]; [|reflexivity].
  pose proof (make_signals_is_model ps) as Hm. destruct (py_make_signals ps) as [[sigs dlc]|ex]; cbn [res_of] in Hm; rewrite <- Hm; cbn [dlift dbind]; [|reflexivity].
  destruct (impl_int im "id") as [id|]; [|reflexivity].
  cbn [dbind]. rewrite IH. f_equal.
  destruct (impl_str im "device") as [d|]; [|apply drop_append_message].
  destruct (negb (existsb (String.eqb d) (bus_nodes _ _))); [|apply drop_append_message].
  rewrite drop_append_node by apply append_message_has_bus. apply drop_append_message.
Qed.

Lemma finish_write (m : dres (busmap * encoder)) :
  option_map drop_nodes (dres_of (dbind m (fun st => DOk (fst st)))) = option_map (fun st : busmap * encoder => drop_nodes (fst st)) (dres_of m).
Proof. destruct m as [[bs e]| |]; reflexivity. Qed.

Theorem write_dbc_is_model sc ims : option_map drop_nodes (dres_of (py_write_dbc sc ims)) = write_dbc sc ims.
Proof.
  unfold py_write_dbc, write_dbc. cbv zeta. rewrite finish_write. exact (write_loop sc ims [] encoder_init).
Qed.
