From Coq Require Import String ZArith List Bool Lia.
From FcpV Require Import Base.Bits Base.BitsProofs Schema.Types Layout.Packed Layout.PackedProofs Verifier.Checks.
From FcpV Require Import Dbc.DbcModel Dbc.DbcSem Base.Cases.
Import ListNotations.
Open Scope Z_scope.

(* ---------- buses ---------- *)
Definition msgs_of (out : list (string * list dmessage)) : list (string * dmessage) :=
  flat_map (fun bm => map (pair (fst bm)) (snd bm)) out.

Lemma in_add_to_bus bus m acc b' m' :
  In (b', m') (msgs_of (add_to_bus bus m acc)) <-> In (b', m') (msgs_of acc) \/ (b', m') = (bus, m).
Proof.
  induction acc as [|[b ms] acc IH]; cbn.
  - split; [intros [H|[]]; right; now inversion H|intros [[]|H]; left; now inversion H].
  - destruct (String.eqb b bus) eqn:E; cbn [msgs_of flat_map fst snd].
    + apply String.eqb_eq in E. subst b. rewrite map_app, !in_app_iff. cbn [map In].
      split; [intros [[H|[H|[]]]|H]; auto; right; now symmetry|intros [[H|H]|H]; auto; left; right; left; now symmetry].
    + fold (msgs_of (add_to_bus bus m acc)). fold (msgs_of acc). rewrite !in_app_iff, IH. tauto.
Qed.

(* a message is the description of one CAN binding's layout *)
Definition describes (sc : schema) (im : simpl) (bus : string) (m : dmessage) : Prop :=
  iprotocol im = "can"%string /\ bus = bus_of im /\
  exists ps, snd (generate true sc encoder_init im) = Some ps /\ ps <> [] /\
    impl_int im "id" = Some (mid m) /\ mname m = iname im /\
    msignals m = map (sig_of_piece (mux_signals_of ps)) ps /\
    mdlc m = ceil8 (total_bits ps) /\ total_bits ps <= 64.

Lemma make_signals_spec ps sigs dlc : make_signals ps = Some (sigs, dlc) ->
  contiguous 0 ps (total_bits ps) ->
  ps <> [] /\ sigs = map (sig_of_piece (mux_signals_of ps)) ps /\ dlc = ceil8 (total_bits ps) /\ total_bits ps <= 64.
Proof.
  unfold make_signals. intros H Hc.
  destruct (rev ps) as [|lastp r] eqn:Er; [discriminate|].
  assert (Hps : ps = rev r ++ [lastp]).
  { rewrite <- (rev_involutive ps), Er. reflexivity. }
  assert (Hend : pstart lastp + plen lastp = total_bits ps).
  { rewrite Hps in Hc |- *. eapply contiguous_last. exact Hc. }
  rewrite Hend in H. destruct (Z.ltb_spec 64 (total_bits ps)); [discriminate|].
  inversion H; subst sigs dlc. repeat split; auto.
  intros ->. destruct r; discriminate.
Qed.

Theorem write_msgs_sound sc : forall ims acc out,
  write_msgs sc ims acc = Some out ->
  forall b m, In (b, m) (msgs_of out) ->
    In (b, m) (msgs_of acc) \/ exists im, In im ims /\ describes sc im b m.
Proof.
  induction ims as [|im ims IH]; intros acc out H b m Hin; cbn in H.
  - inversion H; subst. now left.
  - destruct (String.eqb (iprotocol im) "can") eqn:Ep; cbn [negb] in H.
    2:{ destruct (IH _ _ H b m Hin) as [|(im' & Hi & Hd)]; [now left|right; exists im'; split; [now right|exact Hd]]. }
    destruct (snd (generate true sc encoder_init im)) as [ps|] eqn:Eg; [|discriminate].
    destruct (make_signals ps) as [[sigs dlc]|] eqn:Em; [|discriminate].
    destruct (impl_int im "id") as [id|] eqn:Ei; [|discriminate].
    destruct (IH _ _ H b m Hin) as [Hacc|(im' & Hi & Hd)].
    + apply in_add_to_bus in Hacc. destruct Hacc as [Hacc|Heq]; [now left|].
      right. exists im. split; [now left|]. inversion Heq; subst b m.
      destruct (layout_tiles_lemma _ _ _ _ _ Eg) as [Hc _].
      destruct (make_signals_spec _ _ _ Em Hc) as (Hne & Hs & Hd & Hle).
      split; [now apply String.eqb_eq|]. split; [reflexivity|].
      exists ps. cbn. repeat split; auto.
    + right. exists im'. split; [now right|exact Hd].
Qed.

Theorem write_msgs_complete sc : forall ims acc out,
  write_msgs sc ims acc = Some out ->
  (forall b m, In (b, m) (msgs_of acc) -> In (b, m) (msgs_of out)) /\
  forall im, In im ims -> iprotocol im = "can"%string ->
    exists m, In (bus_of im, m) (msgs_of out) /\ mname m = iname im.
Proof.
  induction ims as [|im ims IH]; intros acc out H; cbn in H.
  - inversion H; subst. split; [auto|intros im []].
  - destruct (String.eqb (iprotocol im) "can") eqn:Ep; cbn [negb] in H.
    2:{ destruct (IH _ _ H) as [A B]. split; [exact A|]. intros im' [->|Hi] Hc; [|now apply B].
        apply String.eqb_neq in Ep. contradiction. }
    destruct (snd (generate true sc encoder_init im)) as [ps|] eqn:Eg; [|discriminate].
    destruct (make_signals ps) as [[sigs dlc]|] eqn:Em; [|discriminate].
    destruct (impl_int im "id") as [id|] eqn:Ei; [|discriminate].
    destruct (IH _ _ H) as [A B]. split.
    + intros b m Hin. apply A. apply in_add_to_bus. now left.
    + intros im' [->|Hi] Hc; [|now apply B].
      eexists. split; [apply A; apply in_add_to_bus; right; reflexivity|reflexivity].
Qed.

(* ---------- a frame packed per the layout decodes through the Intel signals ---------- *)
Fixpoint pack (ps : list piece) (vs : list Z) : list bool :=
  match ps, vs with
  | p :: ps', v :: vs' => bits_of_Z (Z.to_nat (plen p)) v ++ pack ps' vs'
  | _, _ => []
  end.

Lemma le_extract_app_skip a b start len :
  length a = start -> le_extract start len (a ++ b) = le_extract 0 len b.
Proof. intros <-. unfold le_extract. rewrite skipn_app, skipn_all, Nat.sub_diag. reflexivity. Qed.

Theorem le_decodes_packed : forall ps vs s e rest i p v,
  contiguous s ps e -> Forall (fun p => 0 <= plen p) ps -> length vs = length ps ->
  nth_error ps i = Some p -> nth_error vs i = Some v ->
  le_extract (Z.to_nat (pstart p - s)) (Z.to_nat (plen p)) (pack ps vs ++ rest)
  = v mod 2 ^ (plen p).
Proof.
  induction ps as [|q ps IH]; intros vs s e rest i p v Hc Hn Hl Hp Hv.
  - destruct i; discriminate.
  - destruct vs as [|w vs]; [discriminate|]. cbn in Hc. destruct Hc as [Hs Hc].
    inversion Hn as [|? ? Hq Hn']; subst.
    destruct i as [|i]; cbn in Hp, Hv.
    + inversion Hp; inversion Hv; subst. rewrite Z.sub_diag. cbn [Z.to_nat pack].
      unfold le_extract. cbn [skipn]. rewrite <- app_assoc.
      rewrite <- (bits_of_Z_length (Z.to_nat (plen p)) v) at 1.
      rewrite firstn_app, firstn_all, Nat.sub_diag. cbn [firstn]. rewrite app_nil_r.
      rewrite Z_of_bits_of_Z, Z2Nat.id by exact Hq. reflexivity.
    + cbn [pack]. rewrite <- app_assoc.
      assert (Hge : pstart q + plen q <= pstart p).
      { clear -Hc Hp Hn'. revert Hc Hp Hn'. generalize (pstart q + plen q). revert i.
        induction ps as [|r ps IHp]; intros i z Hc Hp Hn'; [destruct i; discriminate|].
        cbn in Hc. destruct Hc as [Hs Hc]. inversion Hn'; subst. destruct i; cbn in Hp.
        - inversion Hp; subst. lia.
        - specialize (IHp _ _ Hc Hp H2). lia. }
      replace (Z.to_nat (pstart p - pstart q)) with (Z.to_nat (plen q) + Z.to_nat (pstart p - (pstart q + plen q)))%nat by lia.
      unfold le_extract. rewrite <- (bits_of_Z_length (Z.to_nat (plen q)) w) at 1.
      rewrite skipn_app.
      rewrite bits_of_Z_length. rewrite skipn_all2 by (rewrite bits_of_Z_length; lia).
      cbn [app]. replace (Z.to_nat (plen q) + Z.to_nat (pstart p - (pstart q + plen q)) - Z.to_nat (plen q))%nat
        with (Z.to_nat (pstart p - (pstart q + plen q))) by lia.
      apply (IH vs (pstart q + plen q) e rest i p v Hc Hn' ltac:(cbn in Hl; lia) Hp Hv).
Qed.

(* ---------- Motorola start bit: byte-aligned signals of whole bytes ---------- *)
Lemma be_positions_byte_aligned_all :
  forallb (fun b => forallb (fun k =>
     if Nat.leb (b + k) 8 then
       Cases.list_eqb Nat.eqb (be_positions (8 * b + 7) (8 * k)) (bytes_msb_first b k)
     else true) (seq 0 9)) (seq 0 8) = true.
Proof. vm_compute. reflexivity. Qed.

(* ---------- C14: nothing that does not fit is ever described ---------- *)
Lemma ceil8_ge n : 0 <= n -> n <= 8 * ceil8 n.
Proof. intros H. unfold ceil8. pose proof (Z.div_mod (n + 7) 8 ltac:(lia)). pose proof (Z.mod_pos_bound (n + 7) 8 ltac:(lia)). lia. Qed.

Lemma ceil8_le8 n : n <= 64 -> ceil8 n <= 8.
Proof.
  intros H. unfold ceil8. pose proof (Z.div_mod (n + 7) 8 ltac:(lia)). pose proof (Z.mod_pos_bound (n + 7) 8 ltac:(lia)). lia.
Qed.

(* pieces of a tiling are pairwise disjoint *)
Lemma contiguous_disjoint : forall ps s e i j p q,
  contiguous s ps e -> Forall (fun p => 0 <= plen p) ps ->
  nth_error ps i = Some p -> nth_error ps j = Some q -> (i < j)%nat ->
  pstart p + plen p <= pstart q.
Proof.
  induction ps as [|r ps IH]; intros s e i j p q Hc Hn Hi Hj Hlt; [destruct i; discriminate|].
  cbn in Hc. destruct Hc as [Hs Hc]. inversion Hn as [|? ? Hr Hn']; subst.
  destruct j as [|j]; [lia|]. cbn in Hj. destruct i as [|i]; cbn in Hi.
  - inversion Hi; subst.
    pose proof (contiguous_bounds _ _ _ Hn' Hc) as Hb. rewrite Forall_forall in Hb.
    apply nth_error_In in Hj. specialize (Hb q Hj). lia.
  - eapply IH; eauto. lia.
Qed.

Theorem dbc_fits sc ims out :
  write_dbc sc ims = Some out ->
  forall bus m, In (bus, m) (msgs_of out) ->
    exists im ps, In im ims /\ snd (generate true sc encoder_init im) = Some ps /\
      msignals m = map (sig_of_piece (mux_signals_of ps)) ps /\
      0 <= mdlc m <= 8 /\ total_bits ps <= 8 * mdlc m /\ total_bits ps <= 64 /\
      Forall (fun p => 0 <= pstart p /\ pstart p + plen p <= total_bits ps) ps /\
      (forall i j p q, nth_error ps i = Some p -> nth_error ps j = Some q -> (i < j)%nat ->
                       pstart p + plen p <= pstart q).
Proof.
  intros H bus m Hin.
  destruct (write_msgs_sound sc ims [] out H bus m Hin) as [[]|(im & Him & Hd)].
  destruct Hd as (_ & _ & ps & Hg & Hne & _ & _ & Hs & Hdlc & Hle).
  exists im, ps. destruct (layout_tiles_lemma _ _ _ _ _ Hg) as [Hc _].
  pose proof (generate_nonneg _ _ _ _ _ Hg) as Hn.
  assert (Ht : 0 <= total_bits ps).
  { clear -Hn. induction Hn as [|q l Hq _ IHn]; cbn [total_bits fold_right]; [lia|]. fold (total_bits l). lia. }
  repeat split; auto.
  - rewrite Hdlc. unfold ceil8. apply Z.div_pos; lia.
  - rewrite Hdlc. now apply ceil8_le8.
  - rewrite Hdlc. now apply ceil8_ge.
  - apply (contiguous_bounds 0 ps _ Hn Hc).
  - intros i j p q Hi Hj Hlt. eapply contiguous_disjoint; eauto.
Qed.

(* a CAN binding whose layout cannot be computed (variable-size field, unknown
   struct) or exceeds 64 bits makes the whole generation fail *)
Theorem write_msgs_rejects sc : forall ims acc im,
  In im ims -> iprotocol im = "can"%string ->
  (snd (generate true sc encoder_init im) = None \/
   exists ps, snd (generate true sc encoder_init im) = Some ps /\ 64 < total_bits ps) ->
  write_msgs sc ims acc = None.
Proof.
  induction ims as [|x ims IH]; intros acc im Hin Hc Hbad; [contradiction|]. cbn [write_msgs].
  destruct (String.eqb (iprotocol x) "can") eqn:Ep; cbn [negb].
  2:{ destruct Hin as [->|Hin]; [apply String.eqb_neq in Ep; contradiction|]. eapply IH; eauto. }
  destruct Hin as [->|Hin].
  - destruct Hbad as [Hn|(ps & Hg & Hbig)].
    + now rewrite Hn.
    + rewrite Hg. destruct (make_signals ps) as [[sigs dlc]|] eqn:Em; [|reflexivity].
      destruct (layout_tiles_lemma _ _ _ _ _ Hg) as [Hct _].
      destruct (make_signals_spec _ _ _ Em Hct) as (_ & _ & _ & Hle). lia.
  - destruct (snd (generate true sc encoder_init x)) as [ps|]; [|reflexivity].
    destruct (make_signals ps) as [[sigs dlc]|]; [|reflexivity].
    destruct (impl_int x "id"); [|reflexivity]. eapply IH; eauto.
Qed.
