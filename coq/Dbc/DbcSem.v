(* What a DBC reader does with a signal description: Intel (little endian) and
   Motorola (big endian, "sawtooth" bit numbering) extraction from a frame,
   two's complement.  A frame is its bit string: bit number 8*byte + k is bit
   k (LSB = 0) of that byte.  No proofs here. *)
From Coq Require Import ZArith List Bool.
From FcpV Require Import Base.Bits.
Import ListNotations.
Open Scope Z_scope.

Definition bit_at (frame : list bool) (i : nat) : bool := nth i frame false.

(* Intel: start = position of the LSB, bits ascend *)
Definition le_extract (start len : nat) (frame : list bool) : Z :=
  Z_of_bits (firstn len (skipn start frame)).

(* Motorola: start = position of the MSB; the next less significant bit is one
   position lower inside the byte, and bit 7 of the following byte after bit 0 *)
Definition be_next (pos : nat) : nat := if Nat.eqb (pos mod 8) 0 then pos + 15 else pos - 1.

Fixpoint be_positions (pos len : nat) : list nat :=
  match len with
  | O => []
  | S n => pos :: be_positions (be_next pos) n
  end.

(* MSB first *)
Definition be_extract (start len : nat) (frame : list bool) : Z :=
  fold_left (fun acc p => 2 * acc + Z.b2z (bit_at frame p)) (be_positions start len) 0.

Definition to_signed (len : nat) (raw : Z) : Z :=
  if (1 <=? Z.of_nat len) && (2 ^ (Z.of_nat len - 1) <=? raw) then raw - 2 ^ Z.of_nat len else raw.

Definition dbc_extract (start len : nat) (big signed : bool) (frame : list bool) : Z :=
  let raw := if big then be_extract start len frame else le_extract start len frame in
  if signed then to_signed len raw else raw.

(* MSB-first bits of the bytes b .. b+k-1 *)
Definition byte_msb_first (b : nat) : list nat := map (fun j => 8 * b + (7 - j))%nat (seq 0 8).
Definition bytes_msb_first (b k : nat) : list nat := flat_map byte_msb_first (seq b k).
