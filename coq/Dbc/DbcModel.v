(* Model of plugins/fcp_dbc/fcp_dbc/dbc_writer.py: _make_signals and write_dbc,
   up to the records handed to cantools.  No proofs here. *)
From Coq Require Import String ZArith List Bool.
From FcpV Require Import Schema.Types Layout.Packed Verifier.Checks.
Import ListNotations.
Open Scope Z_scope.

Record dsignal := {
  gname : string; gstart : Z; glen : Z; gbig : bool; gsigned : bool; gfloat : bool;
  gunit : option string; gismux : bool; gmuxids : option (list Z); gmuxsig : option string }.

Record dmessage := { mid : Z; mname : string; mdlc : Z; msignals : list dsignal }.

(* piece.name.replace("::", "_") on the structured path *)
Definition dbc_name (p : piece) : string := String.concat "_" (ppath p).

Definition ext_str (p : piece) (k : string) : option string :=
  match lookup k (pext p) with Some (XStr s) => Some s | _ => None end.
Definition ext_int (p : piece) (k : string) : option Z :=
  match lookup k (pext p) with Some (XInt z) => Some z | _ => None end.

Definition is_signed_ty (t : sty) : bool := match t with SI _ => true | _ => false end.
Definition is_float_ty (t : sty) : bool := match t with SF32 | SF64 => true | _ => false end.

Definition zrange (n : Z) : list Z := map Z.of_nat (seq 0 (Z.to_nat n)).

Definition sig_of_piece (mux_signals : list string) (p : piece) : dsignal :=
  {| gname := dbc_name p;
     gstart := if String.eqb (pend p) "little" then pstart p else pstart p + 7;
     glen := plen p;
     gbig := String.eqb (pend p) "big";
     gsigned := is_signed_ty (pty p);
     gfloat := is_float_ty (pty p);
     gunit := punit p;
     gismux := existsb (String.eqb (pname p)) mux_signals;
     gmuxids := option_map zrange (ext_int p "mux_count");
     gmuxsig := ext_str p "mux_signal" |}.

Definition mux_signals_of (ps : list piece) : list string :=
  flat_map (fun p => match ext_str p "mux_signal" with Some s => [s] | None => [] end) ps.

Definition ceil8 (n : Z) : Z := (n + 7) / 8.

(* None = an exception (IndexError on an empty encoding, ValueError when too big) *)
Definition make_signals (ps : list piece) : option (list dsignal * Z) :=
  match rev ps with
  | [] => None
  | lastp :: _ =>
      let bitlen := pstart lastp + plen lastp in
      if 64 <? bitlen then None
      else Some (map (sig_of_piece (mux_signals_of ps)) ps, ceil8 bitlen)
  end.

Definition impl_str (im : simpl) (k : string) : option string :=
  match lookup k (ifields im) with Some (XStr s) => Some s | _ => None end.
Definition impl_int (im : simpl) (k : string) : option Z :=
  match lookup k (ifields im) with Some (XInt z) => Some z | _ => None end.

Definition bus_of (im : simpl) : string :=
  match impl_str im "bus" with Some b => b | None => "default"%string end.

(* add a message to its bus, buses in order of first appearance *)
Fixpoint add_to_bus (bus : string) (m : dmessage) (bs : list (string * list dmessage))
  : list (string * list dmessage) :=
  match bs with
  | [] => [(bus, [m])]
  | (b, ms) :: bs' => if String.eqb b bus then (b, ms ++ [m]) :: bs' else (b, ms) :: add_to_bus bus m bs'
  end.

(* write_dbc: None = it raised / returned Err (the generator then raises on unwrap) *)
Fixpoint write_msgs (sc : schema) (ims : list simpl) (acc : list (string * list dmessage))
  : option (list (string * list dmessage)) :=
  match ims with
  | [] => Some acc
  | im :: ims' =>
      if negb (String.eqb (iprotocol im) "can") then write_msgs sc ims' acc
      else
        match snd (generate true sc encoder_init im) with
        | None => None
        | Some ps =>
            match make_signals ps, impl_int im "id" with
            | Some (sigs, dlc), Some id =>
                write_msgs sc ims'
                  (add_to_bus (bus_of im) {| mid := id; mname := iname im; mdlc := dlc; msignals := sigs |} acc)
            | _, _ => None
            end
        end
  end.

Definition write_dbc (sc : schema) (ims : list simpl) : option (list (string * list dmessage)) :=
  write_msgs sc ims [].
