(* The Python run-time the translated _make_signals (gen/PyDbc.v) runs on.  Hand-written (trusted; DESIGN §24).  No proofs here.
   The readings it fixes: `piece.extended_data.get("mux_signal")` is a string or None and `...get("mux_count")` an integer or None
   (DbcModel.ext_str / ext_int); `piece.name.replace("::", "_")` is the structured path joined with "_" (DbcModel.dbc_name);
   `ceil(n / 8)` on the float quotient is (n + 7) / 8 for the bit counts that occur (DbcModel.ceil8). *)
From Coq Require Import String ZArith List Bool.
From FcpV Require Import Schema.Types Layout.Packed Verifier.Checks Py.BufferLib Dbc.DbcModel.
Import ListNotations.

(* [x for x in l if x is not None] *)
Definition filter_some {A : Type} (l : list (option A)) : list A :=
  flat_map (fun o => match o with Some a => [a] | None => [] end) l.

(* l[-1] *)
Definition py_last {A : Type} (l : list A) : pyres A :=
  match rev l with [] => PRaise PyIndexError | x :: _ => POk x end.

Definition is_none {A : Type} (o : option A) : bool := match o with None => true | Some _ => false end.

(* ---------- write_dbc ---------- *)
(* what a @catch function hands back: Ok(v) / an Err value / an exception *)
Inductive dres (A : Type) := DOk (a : A) | DErr | DRaise.
Arguments DOk {A} a. Arguments DErr {A}. Arguments DRaise {A}.

Definition dbind {A B : Type} (m : dres A) (k : A -> dres B) : dres B :=
  match m with DOk a => k a | DErr => DErr | DRaise => DRaise end.
Definition dlift {A : Type} (r : pyres A) : dres A := match r with POk a => DOk a | PRaise _ => DRaise end.

(* for x in l: body, with the variables the body assigns as loop state; a `return Err(...)` or an exception ends the function *)
Fixpoint dfor {A S : Type} (l : list A) (s : S) (body : S -> A -> dres S) : dres S :=
  match l with
  | [] => DOk s
  | x :: l' => dbind (body s x) (fun s' => dfor l' s' body)
  end.

(* buses = defaultdict(lambda: {"messages": [], "nodes": []}): bus name -> (messages, nodes), in order of first use *)
Definition busmap := list (string * (list dmessage * list string)).

(* buses[bus]["messages"].append(m) *)
Fixpoint bus_append_message (bs : busmap) (bus : string) (m : dmessage) : busmap :=
  match bs with
  | [] => [(bus, ([m], []))]
  | (b, (ms, ns)) :: bs' => if String.eqb b bus then (b, (ms ++ [m], ns)) :: bs' else (b, (ms, ns)) :: bus_append_message bs' bus m
  end.
(* buses[bus]["nodes"] *)
Definition bus_nodes (bs : busmap) (bus : string) : list string :=
  match lookup bus bs with Some (_, ns) => ns | None => [] end.
(* buses[bus]["nodes"].append(n) *)
Fixpoint bus_append_node (bs : busmap) (bus : string) (n : string) : busmap :=
  match bs with
  | [] => [(bus, ([], [n]))]
  | (b, (ms, ns)) :: bs' => if String.eqb b bus then (b, (ms, ns ++ [n])) :: bs' else (b, (ms, ns)) :: bus_append_node bs' bus n
  end.
