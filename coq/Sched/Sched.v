(* Model of can_send_<dev>_msgs_scheduled() as rendered from
   plugins/fcp_can_c/templates/can_device_c.jinja.

     static uint32_t last_call_t = 0;
     static uint32_t last_send_t[N] = {0};
     if (last_call_t == time) return;
     last_call_t = time;
     for each message i, in template order:
       if (PERIOD_i != -1 && (time - last_send_t[i] >= PERIOD_i)) {
           frame = can_encode_msg_i(&dev->msg_i); send(&frame); last_send_t[i] = time; }

   `time - last_send_t[i]` is a uint32_t subtraction (mod 2^32) and the
   comparison with the int macro PERIOD_i converts PERIOD_i to unsigned
   (P mod 2^32).  No proofs in this file. *)
From Coq Require Import ZArith List Bool.
Import ListNotations.
Open Scope Z_scope.

Definition W : Z := 2 ^ 32.

Record sstate := { last_call : Z; last_send : list Z }.

Definition sched_init (n : nat) : sstate :=
  {| last_call := 0; last_send := repeat 0 n |}.

(* the C guard for one message *)
Definition due (P t ls : Z) : bool :=
  negb (P =? -1) && ((P mod W) <=? ((t - ls) mod W)).

(* one pass over the messages: periods, last_send, running index; `pay i` is
   the value of can_encode_msg_i on the device passed to this call *)
Fixpoint sched_msgs {F : Type} (t : Z) (i : nat) (ps ls : list Z) (pay : nat -> F)
  : list Z * list (nat * F) :=
  match ps, ls with
  | P :: ps', l :: ls' =>
      let '(ls2, out) := sched_msgs t (S i) ps' ls' pay in
      if due P t l then (t :: ls2, (i, pay i) :: out) else (l :: ls2, out)
  | _, _ => (ls, [])
  end.

Definition sched_step {F : Type} (ps : list Z) (s : sstate) (call : Z * (nat -> F))
  : sstate * list (nat * F) :=
  let '(t, fs) := call in
  if t =? last_call s then (s, [])
  else
    let '(ls2, out) := sched_msgs t 0 ps (last_send s) fs in
    ({| last_call := t; last_send := ls2 |}, out).

(* whole history: list of outputs, one per call *)
Fixpoint sched_run {F : Type} (ps : list Z) (s : sstate) (h : list (Z * (nat -> F)))
  : list (list (nat * F)) :=
  match h with
  | [] => []
  | c :: h' => let '(s', out) := sched_step ps s c in out :: sched_run ps s' h'
  end.

(* ------------------------------------------------------------------ *)
(* The specification: an ideal scheduler over unbounded true time.     *)
(* A message with period P is transmitted on a call exactly when the  *)
(*  timestamp differs from the previous call's and at least P time     *)
(*  units have elapsed since that message's previous transmission      *)
(*  (since time 0 for the first).                                      *)

Definition ideal_due (P T L : Z) : bool := negb (P =? -1) && (P <=? T - L).

Fixpoint ideal_msgs {F : Type} (T : Z) (i : nat) (ps Ls : list Z) (pay : nat -> F)
  : list Z * list (nat * F) :=
  match ps, Ls with
  | P :: ps', L :: Ls' =>
      let '(Ls2, out) := ideal_msgs T (S i) ps' Ls' pay in
      if ideal_due P T L then (T :: Ls2, (i, pay i) :: out) else (L :: Ls2, out)
  | _, _ => (Ls, [])
  end.

Definition ideal_step {F : Type} (ps : list Z) (s : sstate) (call : Z * (nat -> F))
  : sstate * list (nat * F) :=
  let '(T, fs) := call in
  if T =? last_call s then (s, [])
  else
    let '(Ls2, out) := ideal_msgs T 0 ps (last_send s) fs in
    ({| last_call := T; last_send := Ls2 |}, out).

Fixpoint ideal_run {F : Type} (ps : list Z) (s : sstate) (h : list (Z * (nat -> F)))
  : list (list (nat * F)) :=
  match h with
  | [] => []
  | c :: h' => let '(s', out) := ideal_step ps s c in out :: ideal_run ps s' h'
  end.

(* wrapped view of a true-time history *)
Definition wrap_hist {F : Type} (h : list (Z * (nat -> F))) : list (Z * (nat -> F)) :=
  map (fun c => (fst c mod W, snd c)) h.
