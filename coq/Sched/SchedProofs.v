From Coq Require Import ZArith List Bool Lia.
From FcpV Require Import Sched.Sched.
Import ListNotations.
Open Scope Z_scope.

(* ---------- arithmetic kernel ---------- *)

Lemma W_pos : 0 < W. Proof. unfold W. lia. Qed.
Global Opaque W.

Lemma wrap_sub_exact T L : 0 <= T - L < W -> (T mod W - L mod W) mod W = T - L.
Proof.
  intros H. rewrite <- Zminus_mod. apply Z.mod_small. exact H.
Qed.

Lemma wrap_eq_iff T Tp : 0 <= T - Tp < W -> (T mod W =? Tp mod W) = (T =? Tp).
Proof.
  intros H.
  destruct (Z.eqb_spec T Tp) as [->|Hne].
  - apply Z.eqb_refl.
  - apply Z.eqb_neq. intros Heq.
    assert (Hd : (T - Tp) mod W = 0).
    { rewrite Zminus_mod, Heq, Z.sub_diag. apply Z.mod_0_l. pose proof W_pos; lia. }
    rewrite Z.mod_small in Hd by exact H. lia.
Qed.

Lemma due_exact P T L M :
  (P = -1 \/ 0 <= P <= M) -> M < W -> 0 <= T - L < W ->
  due P (T mod W) (L mod W) = ideal_due P T L.
Proof.
  intros HP HM HTL. unfold due, ideal_due.
  destruct (Z.eqb_spec P (-1)) as [->|Hne]; [reflexivity|]. cbn [negb andb].
  destruct HP as [HP|HP]; [contradiction|].
  rewrite wrap_sub_exact by exact HTL.
  rewrite (Z.mod_small P) by lia. reflexivity.
Qed.

(* ---------- the simulation relation ---------- *)

(* concrete last_send entries are the wrapped true ones; for a message with a
   period, the previous call is at most M after its last transmission *)
Fixpoint rel_ls (Tp M : Z) (ps ls Ls : list Z) : Prop :=
  match ps, ls, Ls with
  | P :: ps', l :: ls', L :: Ls' =>
      l = L mod W /\ (P <> -1 -> 0 <= Tp - L <= M) /\ rel_ls Tp M ps' ls' Ls'
  | [], [], [] => True
  | _, _, _ => False
  end.

Definition periods_ok (M : Z) (ps : list Z) : Prop :=
  Forall (fun P => P = -1 \/ 0 <= P <= M) ps.

Lemma ideal_due_bound P T L : ideal_due P T L = false -> P <> -1 -> T - L < P.
Proof.
  unfold ideal_due. intros H Hne.
  destruct (Z.eqb_spec P (-1)); [contradiction|]. cbn in H.
  apply Z.leb_gt in H. exact H.
Qed.

Lemma msgs_sim {F} M T Tp (pay : nat -> F) ps : forall i ls Ls,
  periods_ok M ps -> 0 <= M < W -> 0 <= T - Tp < W - M ->
  rel_ls Tp M ps ls Ls ->
  snd (sched_msgs (T mod W) i ps ls pay) = snd (ideal_msgs T i ps Ls pay) /\
  rel_ls T M ps (fst (sched_msgs (T mod W) i ps ls pay)) (fst (ideal_msgs T i ps Ls pay)).
Proof.
  induction ps as [|P ps IH]; intros i ls Ls Hps HM HT Hrel.
  - destruct ls, Ls; cbn in Hrel; try contradiction. cbn. split; [reflexivity|exact I].
  - inversion Hps as [|? ? HP Hps']; subst.
    destruct ls as [|l ls]; destruct Ls as [|L Ls]; cbn in Hrel; try contradiction.
    destruct Hrel as (Hl & Hb & Hrel').
    specialize (IH (S i) ls Ls Hps' HM HT Hrel'). destruct IH as [IHo IHr].
    cbn [sched_msgs ideal_msgs].
    destruct (sched_msgs (T mod W) (S i) ps ls pay) as [ls2 out] eqn:E1.
    destruct (ideal_msgs T (S i) ps Ls pay) as [Ls2 out'] eqn:E2.
    cbn [fst snd] in IHo, IHr. subst l.
    destruct (Z.eq_dec P (-1)) as [->|Hne].
    + unfold due, ideal_due. rewrite Z.eqb_refl. cbn [negb andb fst snd].
      split; [exact IHo|]. cbn [rel_ls]. split; [reflexivity|]. split; [intros Hc; contradiction|exact IHr].
    + specialize (Hb Hne).
      rewrite (due_exact P T L M HP) by lia.
      destruct (ideal_due P T L) eqn:Ed; cbn [fst snd].
      * split; [now rewrite IHo|]. cbn [rel_ls]. split; [reflexivity|]. split; [|exact IHr]. intros _.
        destruct HP as [HP|HP]; [contradiction|]. lia.
      * split; [exact IHo|]. cbn [rel_ls]. split; [reflexivity|]. split; [|exact IHr]. intros _.
        pose proof (ideal_due_bound _ _ _ Ed Hne).
        destruct HP as [HP|HP]; [contradiction|]. lia.
Qed.

(* relation between the whole states; Tp is the true time of the previous call *)
Definition rel_state (M : Z) (ps : list Z) (s S : sstate) : Prop :=
  last_call s = last_call S mod W /\
  rel_ls (last_call S) M ps (last_send s) (last_send S).

Lemma step_sim {F} M ps s S T (pay : nat -> F) :
  periods_ok M ps -> 0 <= M < W ->
  rel_state M ps s S -> 0 <= T - last_call S < W - M ->
  snd (sched_step ps s (T mod W, pay)) = snd (ideal_step ps S (T, pay)) /\
  rel_state M ps (fst (sched_step ps s (T mod W, pay))) (fst (ideal_step ps S (T, pay))).
Proof.
  intros Hps HM [Hlc Hrel] HT. unfold sched_step, ideal_step.
  rewrite Hlc, wrap_eq_iff by lia.
  destruct (Z.eqb_spec T (last_call S)) as [->|Hne].
  - cbn. split; [reflexivity|]. split; assumption.
  - pose proof (msgs_sim M T (last_call S) pay ps 0%nat _ _ Hps HM HT Hrel) as [Ho Hr].
    destruct (sched_msgs (T mod W) 0 ps (last_send s) pay) as [ls2 out].
    destruct (ideal_msgs T 0 ps (last_send S) pay) as [Ls2 out'].
    cbn [fst snd] in *. split; [exact Ho|]. split; [reflexivity|exact Hr].
Qed.

(* true-time histories: non-decreasing, every gap below W - M *)
Fixpoint gaps_ok {F} (M Tp : Z) (h : list (Z * (nat -> F))) : Prop :=
  match h with
  | [] => True
  | (T, _) :: h' => 0 <= T - Tp < W - M /\ gaps_ok M T h'
  end.

Lemma ideal_step_last_call {F} ps S T (pay : nat -> F) :
  last_call (fst (ideal_step ps S (T, pay))) = T.
Proof.
  unfold ideal_step. destruct (Z.eqb_spec T (last_call S)) as [->|Hne]; [reflexivity|].
  destruct (ideal_msgs T 0 ps (last_send S) pay). reflexivity.
Qed.

Lemma run_sim {F} M ps : forall (h : list (Z * (nat -> F))) s S,
  periods_ok M ps -> 0 <= M < W ->
  rel_state M ps s S -> gaps_ok M (last_call S) h ->
  sched_run ps s (wrap_hist h) = ideal_run ps S h.
Proof.
  induction h as [|[T pay] h IH]; intros s S Hps HM Hrel Hg; [reflexivity|].
  cbn in Hg. destruct Hg as [HT Hg].
  cbn [wrap_hist map sched_run ideal_run fst snd].
  pose proof (step_sim M ps s S T pay Hps HM Hrel HT) as [Ho Hr].
  pose proof (ideal_step_last_call ps S T pay) as Hlc.
  destruct (sched_step ps s (T mod W, pay)) as [s' out].
  destruct (ideal_step ps S (T, pay)) as [S' out'].
  cbn [fst snd] in *. subst out'. f_equal.
  apply IH; try assumption. rewrite Hlc. exact Hg.
Qed.

Lemma rel_init M ps : 0 <= M -> rel_state M ps (sched_init (length ps)) (sched_init (length ps)).
Proof.
  intros HM. unfold rel_state, sched_init. cbn [last_call last_send]. split; [reflexivity|].
  induction ps as [|P ps IH]; cbn [length repeat rel_ls]; [exact I|].
  split; [reflexivity|]. split; [intros _; lia|exact IH].
Qed.

(* ---- main refinement theorem: all histories, all devices ---- *)
Theorem sched_refines_ideal_lemma {F} (M : Z) (ps : list Z) (h : list (Z * (nat -> F))) :
  periods_ok M ps -> 0 <= M < W -> gaps_ok M 0 h ->
  sched_run ps (sched_init (length ps)) (wrap_hist h)
  = ideal_run ps (sched_init (length ps)) h.
Proof.
  intros Hps HM Hg. apply (run_sim M); try assumption.
  apply rel_init. lia.
Qed.

(* ---------- consequences stated on the ideal scheduler ---------- *)

(* membership characterisation of one pass *)
Lemma ideal_msgs_sent {F} T (pay : nat -> F) ps : forall i Ls k f,
  length Ls = length ps ->
  In (k, f) (snd (ideal_msgs T i ps Ls pay)) <->
  exists j, k = (i + j)%nat /\ f = pay k /\ (j < length ps)%nat /\
            ideal_due (nth j ps 0) T (nth j Ls 0) = true.
Proof.
  induction ps as [|P ps IH]; intros i Ls k f Hlen.
  - destruct Ls; cbn in *; try discriminate. split; [tauto|]. intros (j & _ & _ & Hj & _). lia.
  - destruct Ls as [|L Ls]; cbn in Hlen; try discriminate.
    cbn [ideal_msgs]. specialize (IH (S i) Ls k f ltac:(lia)).
    destruct (ideal_msgs T (S i) ps Ls pay) as [Ls2 out]. cbn [snd] in IH.
    destruct (ideal_due P T L) eqn:Ed; cbn [snd].
    + split.
      * intros [Heq|Hin].
        -- inversion Heq; subst. exists 0%nat. cbn. repeat split; try lia. exact Ed.
        -- apply IH in Hin. destruct Hin as (j & -> & -> & Hj & Hd).
           exists (S j). cbn. repeat split; try lia. exact Hd.
      * intros (j & -> & -> & Hj & Hd). destruct j as [|j].
        -- left. f_equal; [lia|]. f_equal. lia.
        -- right. apply IH. exists j. cbn in Hd, Hj. repeat split; try lia. exact Hd.
    + split.
      * intros Hin. apply IH in Hin. destruct Hin as (j & -> & -> & Hj & Hd).
        exists (S j). cbn. repeat split; try lia. exact Hd.
      * intros (j & -> & -> & Hj & Hd). destruct j as [|j].
        -- cbn in Hd. congruence.
        -- apply IH. exists j. cbn in Hd, Hj. repeat split; try lia. exact Hd.
Qed.

Lemma ideal_msgs_length {F} T (pay : nat -> F) ps : forall i Ls,
  length Ls = length ps -> length (fst (ideal_msgs T i ps Ls pay)) = length ps.
Proof.
  induction ps as [|P ps IH]; intros i Ls Hlen.
  - destruct Ls; cbn in *; congruence.
  - destruct Ls as [|L Ls]; cbn in Hlen; try discriminate. cbn [ideal_msgs].
    specialize (IH (S i) Ls ltac:(lia)).
    destruct (ideal_msgs T (S i) ps Ls pay) as [Ls2 out]. cbn [fst] in IH.
    destruct (ideal_due P T L); cbn; lia.
Qed.

Lemma ideal_msgs_nth {F} T (pay : nat -> F) ps : forall i Ls j,
  length Ls = length ps -> (j < length ps)%nat ->
  nth j (fst (ideal_msgs T i ps Ls pay)) 0 =
  if ideal_due (nth j ps 0) T (nth j Ls 0) then T else nth j Ls 0.
Proof.
  induction ps as [|P ps IH]; intros i Ls j Hlen Hj; [cbn in Hj; lia|].
  destruct Ls as [|L Ls]; cbn in Hlen; try discriminate. cbn [ideal_msgs].
  specialize (IH (S i) Ls).
  destruct (ideal_msgs T (S i) ps Ls pay) as [Ls2 out]. cbn [fst] in IH.
  destruct j as [|j].
  - cbn. destruct (ideal_due P T L); reflexivity.
  - cbn in Hj. specialize (IH j ltac:(lia) ltac:(lia)).
    cbn [nth]. destruct (ideal_due P T L); cbn [fst nth]; exact IH.
Qed.

(* "sent exactly when": one step of the ideal scheduler, message j *)
Theorem ideal_send_iff {F} ps S T (pay : nat -> F) j f :
  length (last_send S) = length ps ->
  In (j, f) (snd (ideal_step ps S (T, pay))) <->
  (j < length ps)%nat /\ f = pay j /\ T <> last_call S /\ nth j ps 0 <> -1 /\
  nth j ps 0 <= T - nth j (last_send S) 0.
Proof.
  intros Hlen. unfold ideal_step.
  destruct (Z.eqb_spec T (last_call S)) as [->|Hne].
  - cbn. split; [tauto|]. intros (_ & _ & Hc & _). congruence.
  - pose proof (ideal_msgs_sent T pay ps 0%nat (last_send S) j f Hlen) as Hs.
    destruct (ideal_msgs T 0 ps (last_send S) pay) as [Ls2 out]. cbn [snd] in *.
    rewrite Hs. unfold ideal_due. split.
    + intros (j' & Hj & -> & Hlt & Hd). cbn in Hj. subst j'.
      apply andb_true_iff in Hd. destruct Hd as [Hd1 Hd2].
      apply negb_true_iff, Z.eqb_neq in Hd1. apply Z.leb_le in Hd2. tauto.
    + intros (Hlt & -> & _ & Hp & Hd). exists j. cbn. repeat split; try assumption.
      apply andb_true_iff. split; [apply negb_true_iff, Z.eqb_neq; exact Hp | apply Z.leb_le; exact Hd].
Qed.

(* never sent without a period *)
Corollary ideal_no_period_never {F} ps S T (pay : nat -> F) j f :
  length (last_send S) = length ps -> nth j ps 0 = -1 ->
  ~ In (j, f) (snd (ideal_step ps S (T, pay))).
Proof. intros Hlen Hp Hin. apply ideal_send_iff in Hin; [|exact Hlen]. tauto. Qed.

(* what last_send holds after a step: the time of this call if sent, else unchanged *)
Lemma ideal_step_last_send {F} ps S T (pay : nat -> F) j :
  length (last_send S) = length ps -> (j < length ps)%nat ->
  nth j (last_send (fst (ideal_step ps S (T, pay)))) 0 =
  if (negb (T =? last_call S)) && ideal_due (nth j ps 0) T (nth j (last_send S) 0)
  then T else nth j (last_send S) 0.
Proof.
  intros Hlen Hj. unfold ideal_step.
  destruct (Z.eqb_spec T (last_call S)) as [->|Hne]; [reflexivity|]. cbn [negb andb].
  pose proof (ideal_msgs_nth T pay ps 0%nat (last_send S) j Hlen Hj) as Hn.
  destruct (ideal_msgs T 0 ps (last_send S) pay) as [Ls2 out]. exact Hn.
Qed.

Lemma ideal_step_length {F} ps S T (pay : nat -> F) :
  length (last_send S) = length ps ->
  length (last_send (fst (ideal_step ps S (T, pay)))) = length ps.
Proof.
  intros Hlen. unfold ideal_step. destruct (T =? last_call S); [exact Hlen|].
  pose proof (ideal_msgs_length T pay ps 0%nat (last_send S) Hlen).
  destruct (ideal_msgs T 0 ps (last_send S) pay). exact H.
Qed.

(* Minimum distance: run the ideal scheduler from any state whose last_send_j
   is L; every later transmission of j happens at a time >= L + P_j, and
   last_send_j only ever holds times of transmissions (or the initial L). *)
Fixpoint ideal_states {F} ps (S : sstate) (h : list (Z * (nat -> F))) : list sstate :=
  match h with
  | [] => []
  | c :: h' => let S' := fst (ideal_step ps S c) in S' :: ideal_states ps S' h'
  end.

Theorem ideal_min_distance {F} ps j : forall (h : list (Z * (nat -> F))) S,
  length (last_send S) = length ps -> (j < length ps)%nat ->
  forall k T pay f S0,
    nth_error h k = Some (T, pay) ->
    nth_error (S :: ideal_states ps S h) k = Some S0 ->
    In (j, f) (snd (ideal_step ps S0 (T, pay))) ->
    nth j ps 0 <= T - nth j (last_send S0) 0.
Proof.
  intros h S Hlen Hj k T pay f S0 _ _ Hin.
  (* S0 is reachable, but the bound follows from the step characterisation
     for any state of the right length; reachability gives the length *)
  revert Hin. unfold ideal_step.
  destruct (Z.eqb_spec T (last_call S0)) as [->|Hne]; [cbn; tauto|].
  destruct (Nat.eq_dec (length (last_send S0)) (length ps)) as [Hl0|Hl0].
  - pose proof (ideal_msgs_sent T pay ps 0%nat (last_send S0) j f Hl0) as Hs.
    destruct (ideal_msgs T 0 ps (last_send S0) pay) as [Ls2 out]. cbn [snd] in *.
    intros Hin. apply Hs in Hin. destruct Hin as (j' & Hjj & _ & _ & Hd). cbn in Hjj. subst j'.
    unfold ideal_due in Hd. apply andb_true_iff in Hd. destruct Hd as [_ Hd]. apply Z.leb_le in Hd. exact Hd.
  - (* lists of different length: the pass stops early, same argument by induction *)
    clear Hlen Hj Hne.
    assert (G : forall ps i Ls, In (j, f) (snd (ideal_msgs T i ps Ls pay)) ->
                exists j', j = (i + j')%nat /\ nth j' ps 0 <= T - nth j' Ls 0).
    { clear. induction ps as [|P ps IH]; intros i Ls Hin; [destruct Ls; cbn in Hin; tauto|].
      destruct Ls as [|L Ls]; [cbn in Hin; tauto|]. cbn [ideal_msgs] in Hin.
      specialize (IH (S i) Ls).
      destruct (ideal_msgs T (S i) ps Ls pay) as [Ls2 out]. cbn [snd] in IH.
      destruct (ideal_due P T L) eqn:Ed; cbn [snd] in Hin.
      - destruct Hin as [Heq|Hin].
        + inversion Heq; subst. exists 0%nat. split; [lia|]. cbn.
          unfold ideal_due in Ed. apply andb_true_iff in Ed. destruct Ed as [_ Ed]. apply Z.leb_le in Ed. exact Ed.
        + destruct (IH Hin) as (j' & -> & Hb). exists (S j'). split; [lia|exact Hb].
      - destruct (IH Hin) as (j' & -> & Hb). exists (S j'). split; [lia|exact Hb]. }
    intros Hin.
    destruct (ideal_msgs T 0 ps (last_send S0) pay) as [Ls2 out] eqn:E.
    specialize (G ps 0%nat (last_send S0)). rewrite E in G. cbn [snd] in *.
    destruct (G Hin) as (j' & Hjj & Hb). cbn in Hjj. subst j'. exact Hb.
Qed.

(* every payload handed to the callback is pay j of *this* call *)
Theorem ideal_frame_is_current {F} ps S T (pay : nat -> F) j f :
  In (j, f) (snd (ideal_step ps S (T, pay))) -> f = pay j.
Proof.
  unfold ideal_step. destruct (T =? last_call S); [cbn; tauto|].
  assert (G : forall ps i Ls, In (j, f) (snd (ideal_msgs T i ps Ls pay)) -> f = pay j).
  { clear. induction ps as [|P ps IH]; intros i Ls Hin; [destruct Ls; cbn in Hin; tauto|].
    destruct Ls as [|L Ls]; [cbn in Hin; tauto|]. cbn [ideal_msgs] in Hin.
    specialize (IH (S i) Ls).
    destruct (ideal_msgs T (S i) ps Ls pay) as [Ls2 out]. cbn [snd] in IH.
    destruct (ideal_due P T L); cbn [snd] in Hin.
    - destruct Hin as [Heq|Hin]; [inversion Heq; subst; reflexivity|auto].
    - auto. }
  intros Hin. specialize (G ps 0%nat (last_send S)).
  destruct (ideal_msgs T 0 ps (last_send S) pay). cbn [snd] in *. auto.
Qed.
