(* What the translated generated scheduler (gen/SchedGen.v, produced by harness/c2coq.py from the C that fcp_can_c emits) is
   compared with: the model step of Sched.v, observed as the indices of the messages sent.  [shape_step] is the model written
   as the statement sequence the template unrolls to; it is proved equal to the model once, for every period list, and each
   generated device is then required to be convertible with it. *)
From Coq Require Import ZArith List Bool Lia.
From FcpV Require Import Sched.Sched.
Import ListNotations.
Open Scope Z_scope.

Fixpoint upd (l : list Z) (i : nat) (v : Z) : list Z :=
  match l, i with
  | [], _ => []
  | _ :: l', O => v :: l'
  | x :: l', S i' => x :: upd l' i' v
  end.

Definition set_last_call (s : sstate) (t : Z) : sstate := {| last_call := t; last_send := last_send s |}.
Definition set_last_send (s : sstate) (i : nat) (t : Z) : sstate := {| last_call := last_call s; last_send := upd (last_send s) i t |}.

(* the model, observed as the indices sent *)
Definition model_step (ps : list Z) (s : sstate) (t : Z) : sstate * list nat :=
  let '(s', out) := sched_step ps s (t, fun i : nat => i) in (s', map fst out).

(* one guarded block of the template *)
Definition block (P : Z) (i : nat) (time : Z) (st : sstate * list nat) : sstate * list nat :=
  let '(s, out) := st in
  if (negb (P =? (- 1))) && ((P mod W) <=? ((time - nth i (last_send s) 0) mod W))
  then (set_last_send s i time, (out ++ [i])%list) else (s, out).

Fixpoint chain (ps : list Z) (i : nat) (time : Z) (st : sstate * list nat) : sstate * list nat :=
  match ps with
  | [] => st
  | P :: ps' => chain ps' (S i) time (block P i time st)
  end.

Definition shape_step (ps : list Z) (s : sstate) (time : Z) : sstate * list nat :=
  if last_call s =? time then (s, []) else chain ps 0 time (set_last_call s time, []).
