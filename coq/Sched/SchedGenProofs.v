(* The statement sequence the scheduler template unrolls to (shape_step) is the model step, for every period list. *)
From Coq Require Import ZArith List Bool Lia.
From FcpV Require Import Sched.Sched Sched.SchedGenLib.
Import ListNotations.
Open Scope Z_scope.

Lemma upd_middle pre x rest v : upd (pre ++ x :: rest) (length pre) v = pre ++ v :: rest.
Proof. induction pre as [|p pre IH]; cbn [app length upd]; [reflexivity|now rewrite IH]. Qed.

Lemma nth_middle' pre (x : Z) rest d : nth (length pre) (pre ++ x :: rest) d = x.
Proof. induction pre as [|p pre IH]; cbn [app length nth]; [reflexivity|exact IH]. Qed.

Lemma chain_model t : forall ps i pre ls c out0,
  length pre = i -> length ls = length ps ->
  chain ps i t ({| last_call := c; last_send := pre ++ ls |}, out0) =
  (let '(ls2, out) := sched_msgs t i ps ls (fun k : nat => k) in
   ({| last_call := c; last_send := pre ++ ls2 |}, (out0 ++ map fst out)%list)).
Proof.
  induction ps as [|P ps IH]; intros i pre ls c out0 Hi Hlen.
  - destruct ls; [|discriminate]. cbn [chain sched_msgs map]. now rewrite !app_nil_r.
  - destruct ls as [|l ls]; [discriminate|]. cbn [chain sched_msgs block last_send].
    subst i. rewrite nth_middle'. unfold due.
    destruct (sched_msgs t (S (length pre)) ps ls (fun k : nat => k)) as [ls2 out] eqn:E.
    destruct (negb (P =? -1) && (P mod W <=? (t - l) mod W)) eqn:G.
    + unfold set_last_send. cbn [last_call last_send]. rewrite upd_middle.
      change (pre ++ t :: ls) with (pre ++ [t] ++ ls). rewrite app_assoc.
      rewrite (IH (S (length pre))) by (rewrite ?app_length; cbn [length] in *; lia).
      rewrite E. cbn [map fst]. rewrite <- !app_assoc. reflexivity.
    + change (pre ++ l :: ls) with (pre ++ [l] ++ ls). rewrite app_assoc.
      rewrite (IH (S (length pre))) by (rewrite ?app_length; cbn [length] in *; lia).
      rewrite E. rewrite <- !app_assoc. reflexivity.
Qed.

Theorem shape_is_model ps s t : length (last_send s) = length ps -> shape_step ps s t = model_step ps s t.
Proof.
  intros Hlen. unfold shape_step, model_step, sched_step. rewrite Z.eqb_sym.
  destruct (t =? last_call s); [reflexivity|].
  destruct s as [c ls]. cbn [last_send last_call set_last_call] in *.
  pose proof (chain_model t ps 0%nat [] ls t [] eq_refl Hlen) as H. cbn [app] in H. unfold set_last_call. cbn [last_call last_send]. rewrite H.
  destruct (sched_msgs t 0 ps ls (fun k : nat => k)); reflexivity.
Qed.
