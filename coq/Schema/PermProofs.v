(* C15: declaration order of fields is irrelevant once ids are distinct. *)
From Coq Require Import String ZArith List Bool Lia Permutation.
From FcpV Require Import Schema.Types Base.SortPerm Layout.Packed Wire.Wire Py.PySerde.
Import ListNotations.
Open Scope Z_scope.

(* s' declares the same fields as s, in another order; ids pairwise distinct *)
Definition struct_perm (s s' : sstruct) : Prop :=
  sname s = sname s' /\ Permutation (sfields s) (sfields s') /\ NoDup (map fid (sfields s)).

Definition schema_perm (sc sc' : schema) : Prop :=
  Forall2 struct_perm (structs sc) (structs sc') /\ enums sc = enums sc'.

Lemma sorted_fields_eq s s' : struct_perm s s' -> sort_by fid (sfields s) = sort_by fid (sfields s').
Proof. intros (_ & Hp & Hnd). now apply sort_by_perm. Qed.

Lemma build_env_perm es ss ss' : Forall2 struct_perm ss ss' ->
  forall en, build_env en es ss = build_env en es ss'.
Proof.
  induction 1 as [|s s' ss ss' Hs _ IH]; intros en; [reflexivity|].
  cbn [build_env]. unfold resolve_struct. rewrite (sorted_fields_eq s s' Hs).
  destruct Hs as (Hn & _). rewrite Hn.
  destruct (option_map RStruct _); apply IH.
Qed.

Theorem resolve_perm sc sc' name : schema_perm sc sc' -> resolve sc name = resolve sc' name.
Proof. intros [Hs He]. unfold resolve. rewrite He. now rewrite (build_env_perm (enums sc') _ _ Hs). Qed.

Lemma lbuild_env_perm unroll es ss ss' : Forall2 struct_perm ss ss' ->
  forall en, lbuild_env unroll en es ss = lbuild_env unroll en es ss'.
Proof.
  induction 1 as [|s s' ss ss' Hs _ IH]; intros en; [reflexivity|].
  cbn [lbuild_env]. unfold lresolve_struct. rewrite (sorted_fields_eq s s' Hs).
  destruct Hs as (Hn & _). rewrite Hn.
  destruct (option_map LStruct _); apply IH.
Qed.

Theorem lresolve_perm unroll sc sc' name : schema_perm sc sc' -> lresolve unroll sc name = lresolve unroll sc' name.
Proof. intros [Hs He]. unfold lresolve. rewrite He. now rewrite (lbuild_env_perm unroll (enums sc') _ _ Hs). Qed.

Theorem py_encode_perm sc sc' name v : schema_perm sc sc' -> py_encode sc name v = py_encode sc' name v.
Proof. intros H. unfold py_encode. now rewrite (resolve_perm sc sc' name H). Qed.

Theorem py_decode_perm sc sc' name b : schema_perm sc sc' -> py_decode sc name b = py_decode sc' name b.
Proof. intros H. unfold py_decode. now rewrite (resolve_perm sc sc' name H). Qed.

Theorem generate_perm unroll sc sc' e im : schema_perm sc sc' ->
  snd (generate unroll sc e im) = snd (generate unroll sc' e im).
Proof. intros H. unfold generate. now rewrite (lresolve_perm unroll sc sc' _ H). Qed.
