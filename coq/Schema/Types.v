(* The schema tree of src/fcp/specs/*.py as far as the codecs and the layout
   need it, and its resolution into closed type trees.  No proofs here. *)
From Coq Require Import String ZArith List Bool.
Import ListNotations.
Open Scope Z_scope.

(* specs/type.py: the syntactic types; references carry the kind the parser
   tagged them with (StructType / EnumType) *)
Inductive sty :=
| SU (n : nat) | SI (n : nat) | SF32 | SF64 | SStr
| SEnumRef (s : string) | SStructRef (s : string)
| SArr (t : sty) (n : nat) | SDyn (t : sty) | SOpt (t : sty).

Record sfield := { fname : string; fid : Z; fty : sty; funit : option string }.
Record sstruct := { sname : string; sfields : list sfield }.
Record senum := { ename : string; evals : list (string * Z) }.
Record schema := { structs : list sstruct; enums : list senum }.

(* closed type trees: what a codec walks once every name is looked up;
   struct fields are in wire order (ascending field id) *)
Inductive rty :=
| RU (n : nat) | RI (n : nat) | RF32 | RF64 | RStr
| REnum (w : nat)
| RArr (t : rty) (n : nat) | RDyn (t : rty) | ROpt (t : rty)
| RStruct (fs : list (string * rty)).

(* values as the Python codec sees them: ints (also enumerators), IEEE-754
   bit patterns for floats, character codes for strings, lists, None/Some,
   and dicts as association lists *)
Inductive value :=
| VInt (z : Z) | VBits (b : Z) | VStr (cs : list Z)
| VList (vs : list value) | VNone | VSome (v : value)
| VStruct (kvs : list (string * value)).

(* ---------- enums: Enum.get_packed_size ---------- *)
Definition enum_max (e : senum) : Z := fold_right Z.max 0 (map snd (evals e)).

(* m in {0,1} -> 1, else floor(log2 m + 1); the float evaluation of log2 is
   exact for m < 2^48 (the range the harness generates; beyond it see the
   known finding enum-size-float) *)
Definition packed_size (m : Z) : nat :=
  if (m <=? 1) then 1%nat else Z.to_nat (Z.log2 m + 1).

(* ---------- lookup: first match, as FcpV2.get_struct / get_enum ---------- *)
Fixpoint lookup {A : Type} (k : string) (l : list (string * A)) : option A :=
  match l with
  | [] => None
  | (k', a) :: l' => if String.eqb k k' then Some a else lookup k l'
  end.

Definition find_enum (es : list senum) (n : string) : option senum :=
  find (fun e => String.eqb n (ename e)) es.

(* ---------- stable sort by field id: sorted(fields, key=field_id) ---------- *)
Fixpoint insert_by {A : Type} (key : A -> Z) (x : A) (l : list A) : list A :=
  match l with
  | [] => [x]
  | y :: l' => if (key y <=? key x) then y :: insert_by key x l' else x :: y :: l'
  end.

(* insertion from the right keeps equal keys in their original order *)
Definition sort_by {A : Type} (key : A -> Z) (l : list A) : list A :=
  fold_right (insert_by key) [] l.

(* ---------- resolution ---------- *)
Definition env := list (string * rty).

Fixpoint resolve_ty (en : env) (es : list senum) (t : sty) : option rty :=
  match t with
  | SU n => Some (RU n)
  | SI n => Some (RI n)
  | SF32 => Some RF32
  | SF64 => Some RF64
  | SStr => Some RStr
  | SEnumRef s => option_map (fun e => REnum (packed_size (enum_max e))) (find_enum es s)
  | SStructRef s => lookup s en
  | SArr t n => option_map (fun r => RArr r n) (resolve_ty en es t)
  | SDyn t => option_map RDyn (resolve_ty en es t)
  | SOpt t => option_map ROpt (resolve_ty en es t)
  end.

Fixpoint resolve_fields (en : env) (es : list senum) (fs : list sfield)
  : option (list (string * rty)) :=
  match fs with
  | [] => Some []
  | f :: fs' =>
      match resolve_ty en es (fty f), resolve_fields en es fs' with
      | Some r, Some rs => Some ((fname f, r) :: rs)
      | _, _ => None
      end
  end.

Definition resolve_struct (en : env) (es : list senum) (s : sstruct) : option rty :=
  option_map RStruct (resolve_fields en es (sort_by fid (sfields s))).

(* structs are processed in declaration order; a struct may only use structs
   declared before it (the parser's composed_type rule); one that does not
   resolve is left out, so looking it up answers None (out of the domain) *)
Fixpoint build_env (en : env) (es : list senum) (ss : list sstruct) : env :=
  match ss with
  | [] => en
  | s :: ss' =>
      match resolve_struct en es s with
      | Some r => build_env (en ++ [(sname s, r)]) es ss'
      | None => build_env en es ss'
      end
  end.

Definition resolve (sc : schema) (name : string) : option rty :=
  lookup name (build_env [] (enums sc) (structs sc)).

(* the same, with the fields of every struct left in DECLARATION order: what a
   consumer sees that walks struct.fields (the reflection record, the run-time
   loaded C++ schema) *)
Definition resolve_struct_decl (en : env) (es : list senum) (s : sstruct) : option rty :=
  option_map RStruct (resolve_fields en es (sfields s)).

Fixpoint build_env_decl (en : env) (es : list senum) (ss : list sstruct) : env :=
  match ss with
  | [] => en
  | s :: ss' =>
      match resolve_struct_decl en es s with
      | Some r => build_env_decl (en ++ [(sname s, r)]) es ss'
      | None => build_env_decl en es ss'
      end
  end.

Definition resolve_decl (sc : schema) (name : string) : option rty :=
  lookup name (build_env_decl [] (enums sc) (structs sc)).

(* ---------- typing of values ---------- *)
Definition in_unsigned (n : nat) (z : Z) : bool := (0 <=? z) && (z <? 2 ^ Z.of_nat n).
Definition in_signed (n : nat) (z : Z) : bool :=
  (1 <=? Z.of_nat n) && (- 2 ^ (Z.of_nat n - 1) <=? z) && (z <? 2 ^ (Z.of_nat n - 1)).

(* the function argument stays outside the [fix] (as in List.map) so that
   nested recursive definitions through these combinators pass the guard *)
Definition forallb2 {A B : Type} (f : A -> B -> bool) : list A -> list B -> bool :=
  fix go (a : list A) (b : list B) {struct a} : bool :=
  match a with
  | [] => match b with [] => true | _ => false end
  | x :: a' => match b with [] => false | y :: b' => f x y && go a' b' end
  end.

(* typing, parameterised by the predicate on signed leaves (width, value) so
   that "in range" and "in range and decodable by codec X" share one definition *)
Definition has_type_gen (okS : nat -> Z -> bool) : rty -> value -> bool :=
  fix ht (t : rty) (v : value) {struct t} : bool :=
  match t, v with
  | RU n, VInt z => in_unsigned n z
  | RI n, VInt z => okS n z
  | REnum w, VInt z => in_unsigned w z
  | RF32, VBits b => in_unsigned 32 b
  | RF64, VBits b => in_unsigned 64 b
  | RStr, VStr cs => forallb (in_unsigned 7) cs && (Z.of_nat (length cs) <? 2 ^ 32)
  | RArr t n, VList vs => Nat.eqb (length vs) n && forallb (ht t) vs
  | RDyn t, VList vs => (Z.of_nat (length vs) <? 2 ^ 32) && forallb (ht t) vs
  | ROpt t, VNone => true
  | ROpt t, VSome v => ht t v
  | RStruct fs, VStruct kvs =>
      forallb2 (fun (f : string * rty) (kv : string * value) =>
                  String.eqb (fst f) (fst kv) && ht (snd f) (snd kv)) fs kvs
  | _, _ => false
  end.

(* a value is in range for a type *)
Definition has_type : rty -> value -> bool := has_type_gen in_signed.
