(* Correspondence runner for the generated C++ static codec (C03, C15). *)
From Coq Require Import String ZArith List Bool.
From FcpV Require Export Base.Cases Base.Bits Schema.Types Wire.Wire Py.PySerde Cpp.CppStatic Corr.Serde.
Import ListNotations.
Open Scope Z_scope.

Inductive cop :=
| CEnc (v : value) (observed : option (list Z))     (* None: the driver reported no bytes *)
| CDec (bytes : list Z) (observed : option value).

Definition case := (schema * string * cop)%type.

Definition check_case (c : case) : bool :=
  let '(sc, name, o) := c in
  match resolve sc name with
  | None => false
  | Some t =>
      match o with
      | CEnc v obs =>
          match canon t v with
          | Some cv => has_type t cv && cpp_ok t cv && option_eqb (list_eqb Z.eqb) (cpp_encode sc name cv) obs
          | None => false
          end
      | CDec bytes obs =>
          match cpp_decode sc name bytes, obs with
          | Some (Ok v), Some ov => match canon t ov with Some cv => value_eqb v cv | None => false end
          | Some (Raise _), None => true
          | _, _ => false
          end
      end
  end.

Definition run_case (c : case) :=
  let '(sc, name, o) := c in
  match o with
  | CEnc v _ => (match resolve sc name with Some t => match canon t v with Some cv => cpp_encode sc name cv | None => None end | None => None end, None)
  | CDec bytes _ => (None, cpp_decode sc name bytes)
  end.
