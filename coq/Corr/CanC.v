(* Correspondence runner for the generated C CAN code (C06). *)
From Coq Require Import String ZArith List Bool.
From FcpV Require Export Base.Cases Schema.Types Layout.Packed CanC.CModel.
Import ListNotations.
Open Scope Z_scope.

Inductive cobs :=
| OGenRaise                                   (* the generator raised (KeyError 'i') *)
| ONoCompile                                  (* gcc rejected the generated sources *)
| ORun (id dlc word : Z) (decoded : list Z).  (* frame of can_encode_msg, members of can_decode_msg of it *)

(* schema, the CAN binding, member values in layout order, observation *)
Definition case := (schema * simpl * list Z * cobs)%type.

Definition frame_id_of (im : simpl) : Z :=
  match lookup "id"%string (ifields im) with Some (XInt z) => z | _ => 0 end.

Definition check_case (c : case) : bool :=
  let '(sc, im, vals, obs) := c in
  match snd (generate true sc encoder_init im) with
  | None => false
  | Some ps =>
      let kinds := map kind_of ps in
      if existsb (fun k => match k with KKeyError => true | _ => false end) kinds then
        match obs with OGenRaise => true | _ => false end
      else if existsb (fun k => match k with KUnknownType => true | _ => false end) kinds then
        match obs with ONoCompile => true | _ => false end
      else
        match obs with
        | ORun id dlc word dec =>
            let f := c_encode_msg (frame_id_of im) ps vals in
            Z.eqb (cf_id f) id && Z.eqb (cf_dlc f) dlc && Z.eqb (cf_word f) word &&
            list_eqb Z.eqb (c_decode_msg ps {| cf_id := id; cf_dlc := dlc; cf_word := word |}) dec
        | _ => false
        end
  end.

Definition run_case (c : case) :=
  let '(sc, im, vals, _) := c in
  option_map (fun ps => (map kind_of ps, c_encode_msg (frame_id_of im) ps vals,
                         c_decode_msg ps (c_encode_msg (frame_id_of im) ps vals))) (snd (generate true sc encoder_init im)).
