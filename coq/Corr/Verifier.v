(* Correspondence runner for C09: verifier verdicts. *)
From Coq Require Import String ZArith List Bool.
From FcpV Require Export Base.Cases Schema.Types Layout.Packed Verifier.Checks.
Import ListNotations.

Inductive overdict := OOk | OErr | ORaise.

(* plug-in check set, tree, observed verdict *)
Definition case := (plugin * ftree * overdict)%type.

Definition abstract (v : verdict) : overdict :=
  match v with VOk => OOk | VErr _ => OErr | VRaise => ORaise end.

Definition overdict_eqb (a b : overdict) : bool :=
  match a, b with OOk, OOk | OErr, OErr | ORaise, ORaise => true | _, _ => false end.

Definition check_case (c : case) : bool :=
  let '(pl, t, o) := c in overdict_eqb (abstract (verify pl t)) o.

Definition run_case (c : case) := let '(pl, t, _) := c in verify pl t.
