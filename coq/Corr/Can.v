(* Correspondence runner for the C++ CAN frame wrapper (C18). *)
From Coq Require Import String ZArith List Bool.
From FcpV Require Export Base.Cases Base.Bits Schema.Types Wire.Wire Cpp.CppStatic Cpp.CppCan Corr.Serde.
Import ListNotations.
Open Scope Z_scope.

Definition oframe := (list Z * Z * Z * list Z)%type.          (* bus chars, sid, dlc, data *)

Inductive canop :=
| SEnc (name : string) (v : value) (obs : option oframe)                 (* CanStaticSchema::Encode *)
| SDec (f : oframe) (obs : option (string * value))                     (* CanStaticSchema::Decode *)
| DEncC (name : string) (v : value) (obs : option (option oframe))       (* CanDynamicSchema::Encode; None = it threw *)
| DDecC (f : oframe) (obs : option (string * value)).

Definition case := (schema * list cbinding * canop)%type.

Definition enc_of (sc : schema) (name : string) (v : value) : option (list Z) :=
  match resolve sc name with
  | Some t => match canon t v with Some cv => cpp_encode sc name cv | None => None end
  | None => None
  end.
Definition dec_of (sc : schema) (name : string) (bytes : list Z) : option value :=
  match cpp_decode sc name bytes with Some (Ok v) => Some v | _ => None end.

Definition to_frame (o : oframe) : frame :=
  let '(b, s, d, x) := o in {| fr_bus := b; fr_sid := s; fr_dlc := d; fr_data := x |}.
Definition of_frame (f : frame) : oframe := (fr_bus f, fr_sid f, fr_dlc f, fr_data f).

Definition oframe_eqb (a b : oframe) : bool :=
  let '(b1, s1, d1, x1) := a in let '(b2, s2, d2, x2) := b in
  list_eqb Z.eqb b1 b2 && Z.eqb s1 s2 && Z.eqb d1 d2 && list_eqb Z.eqb x1 x2.

Definition named_eqb (sc : schema) (a b : option (string * value)) : bool :=
  match a, b with
  | None, None => true
  | Some (n1, v1), Some (n2, v2) =>
      String.eqb n1 n2 &&
      match resolve sc n1 with
      | Some t => match canon t v2 with Some cv => value_eqb v1 cv | None => false end
      | None => false
      end
  | _, _ => false
  end.

Definition check_case (c : case) : bool :=
  let '(sc, bs, o) := c in
  match o with
  | SEnc name v obs => option_eqb oframe_eqb (option_map of_frame (static_encode (enc_of sc) bs name v)) obs
  | SDec f obs => named_eqb sc (static_decode (dec_of sc) bs (to_frame f)) obs
  | DEncC name v obs =>
      option_eqb (option_eqb oframe_eqb) (option_map (option_map of_frame) (dynamic_encode (enc_of sc) bs name v)) obs
  | DDecC f obs => named_eqb sc (dynamic_decode (dec_of sc) bs (to_frame f)) obs
  end.
