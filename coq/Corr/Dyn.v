(* Correspondence runner for the run-time C++ codec (C13). *)
From Coq Require Import String ZArith List Bool.
From FcpV Require Export Base.Cases Base.Bits Schema.Types Wire.Wire Cpp.CppStatic Cpp.CppDynamic Corr.Serde.
Import ListNotations.
Open Scope Z_scope.

Inductive dop :=
| DEnc (v : value) (observed : option (list Z))
| DDec (bytes : list Z) (observed : option value).

Definition case := (schema * string * dop)%type.

(* values in declaration order: canon against resolve_decl *)
Definition check_case (c : case) : bool :=
  let '(sc, name, o) := c in
  match resolve_decl sc name with
  | None => false
  | Some t =>
      match o with
      | DEnc v obs =>
          match canon t v with
          | Some cv => option_eqb (list_eqb Z.eqb) (dyn_encode sc name cv) obs
          | None => false
          end
      | DDec bytes obs =>
          match dyn_decode sc name bytes, obs with
          | Some (Ok v), Some ov => match canon t ov with Some cv => value_eqb v cv | None => false end
          | Some (Raise _), None => true
          | _, _ => false
          end
      end
  end.

Definition run_case (c : case) :=
  let '(sc, name, o) := c in
  match o with
  | DEnc v _ => (match resolve_decl sc name with Some t => match canon t v with Some cv => dyn_encode sc name cv | None => None end | None => None end, None)
  | DDec bytes _ => (None, dyn_decode sc name bytes)
  end.
