(* Correspondence for the printer side of C07: the harness' description of a
   schema (translated to items), the token list its Python printer emits for
   it under the canonical and under random choices of the optional separators,
   and the rendered texts.  Checked here, by evaluation:
     - the description is well-formed (the hypothesis of the theorems holds on what is generated);
     - the model printer emits the Python printer's canonical tokens;
     - the model parser returns the description from every token variant;
     - the model lexer returns the variant's tokens from every rendered text. *)
From Coq Require Export String Ascii ZArith List Bool.
From FcpV Require Export Base.Cases Front.Lexer Front.Parser Front.Printer Front.ParserProofs.
Import ListNotations.
Open Scope string_scope.

Definition toks_eqb : list token -> list token -> bool :=
  fix go a b := match a, b with
                | [], [] => true
                | x :: a', y :: b' => tok_eqb x y && go a' b'
                | _, _ => false
                end.

(* the parser's answer is compared by printing it again (the printer is injective on parsed items up to what tok_eqb sees) *)
Definition parses_to (version : string) (its : list item) (ts : list token) : bool :=
  match parse_tokens ts with
  | Some (v, its') => String.eqb v version && toks_eqb (print_tokens v its') (print_tokens version its)
  | None => false
  end.

(* version, items, canonical tokens (identifier values spelled as strings), [(variant tokens, [texts rendered from them])] *)
Definition case := (string * list item * list token * list (list token * list string))%type.

Definition check_case (c : case) : bool :=
  let '(version, its, canon, variants) := c in
  wf_items its &&
  toks_eqb (print_tokens version its) canon &&
  forallb (fun vt =>
             parses_to version its (fst vt) &&
             forallb (fun text => match lex text with Some ts => toks_eqb ts (fst vt) | None => false end) (snd vt))
          variants.
