(* Correspondence runner for the DBC generator (C05, C14). *)
From Coq Require Import String ZArith List Bool.
From FcpV Require Export Base.Cases Base.Bits Schema.Types Layout.Packed Dbc.DbcModel Dbc.DbcSem.
Import ListNotations.
Open Scope Z_scope.

(* read back from the generated text: name, start, length, big endian, signed,
   float, unit ("" = none), is multiplexer, multiplexer ids *)
Definition osignal := (string * Z * Z * bool * bool * bool * string * bool * option (list Z))%type.
Definition omessage := (Z * string * Z * list osignal)%type.

Definition observe_sig (g : dsignal) : osignal :=
  (gname g, gstart g, glen g, gbig g, gsigned g, gfloat g,
   match gunit g with Some u => u | None => ""%string end, gismux g, gmuxids g).

Definition osignal_eqb (a b : osignal) : bool :=
  let '(n1, s1, l1, b1, g1, f1, u1, m1, i1) := a in
  let '(n2, s2, l2, b2, g2, f2, u2, m2, i2) := b in
  String.eqb n1 n2 && Z.eqb s1 s2 && Z.eqb l1 l2 && Bool.eqb b1 b2 && Bool.eqb g1 g2 && Bool.eqb f1 f2 &&
  String.eqb u1 u2 && Bool.eqb m1 m2 && option_eqb (list_eqb Z.eqb) i1 i2.

(* equality as finite sets (same size, every element matched) *)
Definition set_eqb {A : Type} (eqb : A -> A -> bool) (a b : list A) : bool :=
  Nat.eqb (length a) (length b) && forallb (fun x => existsb (eqb x) b) a && forallb (fun y => existsb (fun x => eqb x y) a) b.

Definition omessage_eqb (a b : omessage) : bool :=
  let '(i1, n1, d1, s1) := a in let '(i2, n2, d2, s2) := b in
  Z.eqb i1 i2 && String.eqb n1 n2 && Z.eqb d1 d2 && set_eqb osignal_eqb s1 s2.

Definition observe_msg (m : dmessage) : omessage :=
  (mid m, mname m, mdlc m, map observe_sig (msignals m)).

Definition obus := (string * list omessage)%type.
Definition obus_eqb (a b : obus) : bool :=
  String.eqb (fst a) (fst b) && set_eqb omessage_eqb (snd a) (snd b).

(* frames decoded through the independent DBC reader: message id, frame bytes,
   decoded raw value per signal name *)
Definition oframe := (string * Z * list Z * list (string * Z))%type.

Definition case := (schema * list simpl * option (list obus) * list oframe)%type.

Definition model_buses (sc : schema) (ims : list simpl) : option (list obus) :=
  option_map (map (fun bm => (fst bm, map observe_msg (snd bm)))) (write_dbc sc ims).

Definition find_msg (out : list (string * list dmessage)) (bus : string) (id : Z) : option dmessage :=
  match lookup bus out with
  | Some ms => find (fun m => Z.eqb (mid m) id) ms
  | None => None
  end.

Definition frame_ok (out : list (string * list dmessage)) (f : oframe) : bool :=
  let '(bus, id, bytes, vals) := f in
  match find_msg out bus id with
  | None => false
  | Some m =>
      let frame := bits_of_bytes bytes in
      forallb (fun nv =>
        match find (fun g => String.eqb (gname g) (fst nv)) (msignals m) with
        | Some g => Z.eqb (dbc_extract (Z.to_nat (gstart g)) (Z.to_nat (glen g)) (gbig g) (gsigned g) frame) (snd nv)
        | None => false
        end) vals
  end.

Definition check_case (c : case) : bool :=
  let '(sc, ims, obs, frames) := c in
  option_eqb (set_eqb obus_eqb) (model_buses sc ims) obs &&
  match write_dbc sc ims with
  | Some out => forallb (frame_ok out) frames
  | None => match frames with [] => true | _ => false end
  end.

Definition run_case (c : case) := let '(sc, ims, _, _) := c in model_buses sc ims.
