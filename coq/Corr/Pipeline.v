(* Correspondence runner for C10 (and C14): GeneratorManager.generate. *)
From Coq Require Import String ZArith List Bool.
From FcpV Require Export Base.Cases Schema.Types Layout.Packed Verifier.Checks Codegen.Pipeline Codegen.PipelineProofs.
Import ListNotations.

Inductive oresult := OROk | ORErr | ORExn.

(* plug-in, tree, what the plug-in's generate() returned when it was reached
   (PRaise also when it was never reached and would have raised), directory
   before, observed return, directory after *)
Definition case := (plugin * ftree * plugin_out * fsys * oresult * fsys)%type.

Definition abstract (c : comp (result unit)) : oresult :=
  match c with Ret (ROk _) => OROk | Ret (RErr _) => ORErr | _ => ORExn end.

Definition oresult_eqb (a b : oresult) : bool :=
  match a, b with OROk, OROk | ORErr, ORErr | ORExn, ORExn => true | _, _ => false end.

Definition fs_sub (a b : fsys) : bool :=
  forallb (fun f => option_eqb Z.eqb (fs_get (fst f) a) (fs_get (fst f) b)) a.
Definition fs_eqb (a b : fsys) : bool := fs_sub a b && fs_sub b a.

Definition run_case (c : case) :=
  let '(pl, t, out, fs, _, _) := c in manager_generate pl t out fs.

Definition check_case (c : case) : bool :=
  let '(pl, t, out, fs, o, fs') := c in
  let '(r, fsm) := manager_generate pl t out fs in
  oresult_eqb (abstract r) o && fs_eqb fsm fs'.
