(* Correspondence runner for the front end (C07, C08, C11, C20). *)
From Coq Require Import String Ascii ZArith List Bool.
From FcpV Require Export Base.Cases Schema.Types Front.Lexer Front.Parser Front.Elab Corr.Layout.
Import ListNotations.
Open Scope string_scope.

(* ---- equality of front trees ---- *)
Fixpoint fval_eqb (a b : fval) {struct a} : bool :=
  match a, b with
  | FInt x, FInt y | FFloat x, FFloat y => Z.eqb x y
  | FStr x, FStr y => String.eqb x y
  | FArr x, FArr y => list_eqb fval_eqb x y
  | _, _ => false
  end.

Definition kv_eqb := pair_eqb String.eqb fval_eqb.
Definition oz_eqb := option_eqb Z.eqb.

Definition ffield_eqb (a b : ffield) : bool :=
  String.eqb (ff_name a) (ff_name b) && Z.eqb (ff_id a) (ff_id b) && sty_eqb (ff_type a) (ff_type b) &&
  option_eqb String.eqb (ff_unit a) (ff_unit b) && oz_eqb (ff_min a) (ff_min b) && oz_eqb (ff_max a) (ff_max b).
Definition fstruct_eqb (a b : fstruct) : bool :=
  String.eqb (fs_name a) (fs_name b) && list_eqb ffield_eqb (fs_fields a) (fs_fields b).
Definition fsignal_eqb (a b : fsignal) : bool :=
  String.eqb (fg_name a) (fg_name b) && list_eqb kv_eqb (fg_fields a) (fg_fields b).
Definition fimpl_eqb (a b : fimpl) : bool :=
  String.eqb (fi_name a) (fi_name b) && String.eqb (fi_protocol a) (fi_protocol b) && String.eqb (fi_type a) (fi_type b) &&
  list_eqb kv_eqb (fi_fields a) (fi_fields b) && list_eqb fsignal_eqb (fi_signals a) (fi_signals b).
Definition fmethod_eqb (a b : fmethod) : bool :=
  String.eqb (fm_name a) (fm_name b) && Z.eqb (fm_id a) (fm_id b) && String.eqb (fm_input a) (fm_input b) && String.eqb (fm_output a) (fm_output b).
Definition fservice_eqb (a b : fservice) : bool :=
  String.eqb (fv_name a) (fv_name b) && Z.eqb (fv_id a) (fv_id b) && list_eqb fmethod_eqb (fv_methods a) (fv_methods b).
Definition fdevice_eqb (a b : fdevice) : bool :=
  String.eqb (fd_name a) (fd_name b) && list_eqb kv_eqb (fd_fields a) (fd_fields b).
Definition front_eqb (a b : front) : bool :=
  list_eqb fstruct_eqb (f_structs a) (f_structs b) &&
  list_eqb (pair_eqb String.eqb (list_eqb (pair_eqb String.eqb Z.eqb))) (f_enums a) (f_enums b) &&
  list_eqb fimpl_eqb (f_impls a) (f_impls b) && list_eqb fservice_eqb (f_services a) (f_services b) &&
  list_eqb fdevice_eqb (f_devices a) (f_devices b).

(* ---- substring test for "the diagnostic names X" ---- *)
Fixpoint prefix_of (p s : string) : bool :=
  match p with
  | EmptyString => true
  | String c p' => match s with String d s' => Ascii.eqb c d && prefix_of p' s' | EmptyString => false end
  end.
Fixpoint contains (needle hay : string) : bool :=
  prefix_of needle hay || match hay with String _ h' => contains needle h' | EmptyString => false end.

(* ---- the one construct the model parser does not cover ----
   A field parameter written without parentheses (`| unit "V"`, or a stray
   parenthesis in parameter position): Lark's grammar makes both parentheses
   optional and Earley resolves the resulting ambiguity silently.  A token-level
   scan finds the parameter region of every struct field (after the field's
   type, up to the comma at nesting depth 0) and flags anything that is not
   [ "|" ] name "(" ... ")". *)
Fixpoint skip_brackets (fuel : nat) (depth : nat) (ts : list token) : list token :=
  match fuel with
  | O => ts
  | S f =>
      match ts with
      | TPunct "[" :: ts' => skip_brackets f (S depth) ts'
      | TPunct "]" :: ts' => match depth with O => ts' | S O => ts' | S d => skip_brackets f d ts' end
      | _ :: ts' => skip_brackets f depth ts'
      | [] => []
      end
  end%char.

Definition skip_type (ts : list token) : list token :=
  match ts with
  | TId "Optional" :: TPunct "[" :: ts' => skip_brackets (length ts) 1 ts'
  | TPunct "[" :: ts' => skip_brackets (length ts) 1 ts'
  | _ :: ts' => ts'
  | [] => []
  end%char.

(* in parameter position at depth 0; returns (suspicious, rest after the field's comma) *)
Fixpoint scan_params (fuel : nat) (depth : nat) (ts : list token) : bool * list token :=
  match fuel with
  | O => (false, ts)
  | S f =>
      match depth, ts with
      | O, TPunct "," :: ts' => (false, ts')
      | O, TPunct "|" :: ts' => scan_params f 0 ts'
      | O, TId _ :: TPunct "(" :: ts' => scan_params f 1 ts'
      | O, TPunct "}" :: _ => (false, ts)
      | O, _ :: _ => (true, ts)
      | S d, TPunct "(" :: ts' => scan_params f (S (S d)) ts'
      | S d, TPunct ")" :: ts' => scan_params f d ts'
      | S d, TId "struct" :: _ | S d, TPunct "}" :: _ => (true, ts)
      | S d, _ :: ts' => scan_params f (S d) ts'
      | _, [] => (false, [])
      end
  end%char.

(* walk the token list; inside `struct X {` look at every `name @ num : type <params> ,` *)
Fixpoint paren_free_param (fuel : nat) (in_struct : bool) (ts : list token) : bool :=
  match fuel with
  | O => false
  | S f =>
      match ts with
      | TId "struct" :: TId _ :: TPunct "{" :: ts' => paren_free_param f true ts'
      | TPunct "}" :: ts' => paren_free_param f false ts'
      | TId _ :: TPunct "@" :: _ :: TPunct ":" :: ts' =>
          if in_struct then
            let '(bad, rest) := scan_params (length ts) 0 (skip_type ts') in
            bad || paren_free_param f true rest
          else paren_free_param f in_struct ts'
      | _ :: ts' => paren_free_param f in_struct ts'
      | [] => false
      end
  end%char.

(* The grammar spells the integer types as "u" (DIGIT | DIGIT DIGIT) with blanks ignored BETWEEN the characters, so `u8 2` is the type
   u82 and `u 8` is u8. The model's lexer works on white-space separated tokens and does not re-join them: such token pairs (they
   only arise from token-level mutations, e.g. the deleted comma of `[u8, 2]`) are outside its domain. *)
Definition split_type_head (s : string) : bool :=
  match s with
  | String c EmptyString => (Ascii.eqb c "u" || Ascii.eqb c "i")%char
  | String c (String d EmptyString) => ((Ascii.eqb c "u" || Ascii.eqb c "i") && is_digit d)%char
  | _ => false
  end.

Fixpoint split_type_name (ts : list token) : bool :=
  match ts with
  | TId s :: ((TInt _ | TFloat _) :: _) as ts' => split_type_head s || split_type_name ts'
  | _ :: ts' => split_type_name ts'
  | [] => false
  end.

(* A name in type position that starts like a built-in type (str, f32, f64, u<d>, i<d>) without being one is read by the real
   grammar as the built-in followed by garbage ("struct" = str + uct): the known finding builtin-prefix. The model resolves such a
   name like any other; after ":" or "[" (every type position, and some value positions) it is outside the model's domain. *)
Definition starts_with (p s : string) : bool := String.eqb (substring 0 (String.length p) s) p.
Definition builtin_prefixed (name : string) : bool :=
  match classify name with
  | PTRef _ =>
      starts_with "str" name || starts_with "f32" name || starts_with "f64" name ||
      match name with
      | String c (String d _) => ((Ascii.eqb c "u" || Ascii.eqb c "i") && is_digit d)%char
      | _ => false
      end
  | _ => false
  end.

Fixpoint prefixed_type_name (ts : list token) : bool :=
  match ts with
  | TPunct c :: (TId name :: _) as ts' =>
      ((Ascii.eqb c ":" || Ascii.eqb c "[")%char && builtin_prefixed name) || prefixed_type_name ts'
  | _ :: ts' => prefixed_type_name ts'
  | [] => false
  end.

Definition file_out_of_domain (src : string) : bool :=
  match lex src with
  | Some ts => paren_free_param (S (length ts)) false ts || split_type_name ts || prefixed_type_name ts
  | None => false
  end.

Inductive ofront :=
| FOk (f : front)                      (* get_fcp returned Ok *)
| FErr (diagnostic : string)           (* returned Err; the text is Logger.error(err) plus str(err) *)
| FRaise.                              (* an exception escaped *)

(* float oracle, files, root, observed *)
Definition case := (oracle * files * path * ofront)%type.

(* 2 = model outside its domain (skipped, counted by the harness), 1 = agree, 0 = disagree *)
Definition judge (c : case) : nat :=
  let '(o, fs, root, obs) := c in
  if existsb (fun f => file_out_of_domain (snd f)) fs then 2 else
  match front_end o fs root, obs with
  | EDomain, _ => 2
  | EOk f, FOk g => if front_eqb f g then 1 else 0
  | EErr names, FErr d => if forallb (fun n => contains n d) names then 1 else 0
  | _, _ => 0
  end%nat.

Definition check_case (c : case) : bool := negb (Nat.eqb (judge c) 0).
Definition in_domain (c : case) : bool := negb (Nat.eqb (judge c) 2).
Definition run_case (c : case) := let '(o, fs, root, _) := c in front_end o fs root.
