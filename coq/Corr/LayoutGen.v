(* Correspondence runner for the TRANSLATED PackedEncoder (gen/PyEncoder.v): the cases of Corr/Layout.v, on which the translated
   generate() is additionally run (vm_compute) and compared with what the real encoder returned. *)
From Coq Require Import String ZArith List Bool.
From FcpV Require Export Corr.Layout.
From FcpV Require Import Py.BufferLib Py.DispatchLib Layout.EncoderLib gen.PyEncoder.
Import ListNotations.
Open Scope Z_scope.

Definition observe_value (v : pvalue) : opiece :=
  (v_name v, v_type v, v_bitstart v, v_bitlength v, v_endianess v, v_unit v, v_extended_data v).

Definition fuel : nat := 200.

(* generate() called for each impl in turn on ONE encoder object; an exception leaves the object as it was at the call
   (whatever it was, the next generate() resets encoding and bitstart first) *)
Fixpoint run_translated (self : penc) (ims : list simpl) : list (option (list opiece)) :=
  match ims with
  | [] => []
  | im :: ims' =>
      match py_generate fuel self im with
      | POk (self', vs) => Some (map observe_value vs) :: run_translated self' ims'
      | PRaise _ => None :: run_translated self ims'
      end
  end.

Definition check_translated (c : case) : bool :=
  let '(sc, unroll, ims, obs) := c in
  list_eqb (option_eqb (list_eqb opiece_eqb)) (run_translated (penc_init sc unroll) ims) obs.

Definition check_case_gen (c : case) : bool := check_case c && check_translated c.
Definition case : Type := Layout.case.
