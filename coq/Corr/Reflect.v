(* Correspondence runner for C12: reflection records. *)
From Coq Require Import String ZArith List Bool.
From FcpV Require Export Base.Cases Schema.Types Wire.Wire Py.PySerde Corr.Serde Reflect.Reflection.
From FcpV Require Import gen.ReflSchema.
Import ListNotations.
Open Scope Z_scope.

(* tree, fcp.reflection() as a value, serde.encode(...) of it, serde.decode(...) of those bytes *)
Definition case := (rtree * value * option (list Z) * option value)%type.

Definition refl_ty : option rty := resolve ReflSchema.schema "Fcp".

Definition check_case (c : case) : bool :=
  let '(t, obs, enc, dec) := c in
  match refl_ty with
  | None => false
  | Some T =>
      let r := reflection t in
      has_type_gen py_okS T r &&
      match canon T obs with Some cv => value_eqb cv r | None => false end &&
      option_eqb (list_eqb Z.eqb) (py_encode ReflSchema.schema "Fcp" r) enc &&
      match dec with
      | Some d => match canon T d with Some cd => value_eqb cd r | None => false end
      | None => false
      end
  end.

Definition run_case (c : case) := let '(t, _, _, _) := c in reflection t.
