(* Correspondence runner for C17: which files the C++ generator returns. *)
From Coq Require Import String ZArith List Bool.
From FcpV Require Export Base.Cases Schema.Types Gen.Determinism.
Import ListNotations.

(* protocols of the impls in tree order, service names, the returned file names *)
Definition case := (list string * list string * list string)%type.

Definition set_eqb (a b : list string) : bool :=
  Nat.eqb (length a) (length b) && forallb (fun x => existsb (String.eqb x) b) a && forallb (fun x => existsb (String.eqb x) a) b.

Definition check_case (c : case) : bool :=
  let '(protos, services, observed) := c in
  set_eqb (cpp_file_names (dedup protos) services) observed.
