(* Correspondence runner shared by C01, C02, C16 (and C12, C15): the Python codec. *)
From Coq Require Import String ZArith List Bool.
From FcpV Require Export Base.Cases Base.Bits Schema.Types Wire.Wire Py.PySerde.
Import ListNotations.
Open Scope Z_scope.

(* ---- canonical form of a harness value: dicts reordered to the wire order of
   the type (the Python codec indexes the dict by field name) ---- *)
Definition opt_mapM {A B : Type} (f : A -> option B) : list A -> option (list B) :=
  fix go (l : list A) : option (list B) :=
  match l with
  | [] => Some []
  | x :: l' => match f x, go l' with Some y, Some ys => Some (y :: ys) | _, _ => None end
  end.

Definition canon : rty -> value -> option value :=
  fix cn (t : rty) (v : value) {struct t} : option value :=
  match t, v with
  | RArr t' _, VList vs => option_map VList (opt_mapM (cn t') vs)
  | RDyn t', VList vs => option_map VList (opt_mapM (cn t') vs)
  | ROpt t', VSome v' => option_map VSome (cn t' v')
  | RStruct fs, VStruct kvs =>
      if Nat.eqb (length fs) (length kvs) then
        option_map VStruct
          (opt_mapM (fun (f : string * rty) =>
                       match lookup (fst f) kvs with
                       | Some v' => option_map (pair (fst f)) (cn (snd f) v')
                       | None => None
                       end) fs)
      else None
  | _, _ => Some v
  end.

(* ---- decidable equality of values ---- *)
Fixpoint value_eqb (a b : value) {struct a} : bool :=
  match a, b with
  | VInt x, VInt y => Z.eqb x y
  | VBits x, VBits y => Z.eqb x y
  | VStr x, VStr y => list_eqb Z.eqb x y
  | VList x, VList y => list_eqb value_eqb x y
  | VNone, VNone => true
  | VSome x, VSome y => value_eqb x y
  | VStruct x, VStruct y =>
      list_eqb (fun p q => String.eqb (fst p) (fst q) && value_eqb (snd p) (snd q)) x y
  | _, _ => false
  end.

(* ---- executable decoder for arbitrary (corrupted) input ----
   Same as Wire.gdec except that an announced element count is capped at
   (bits left + 1): once the input is exhausted the very next element fails,
   so a count of 2^32-1 does not have to be unfolded into a unary number.
   (Equal to gdec whenever every element type occupies at least one bit; see
   Py/PySerdeProofs.v, dec_rep_cap.) *)
Definition capped (len : Z) (r : bits) : nat := Z.to_nat (Z.min len (Z.of_nat (S (length r)))).

(* a lower bound on the bits a successful decode of the type consumes *)
Fixpoint min_bits (t : rty) : nat :=
  match t with
  | RU n | RI n | REnum n => n
  | RF32 => 32 | RF64 => 64
  | RStr | RDyn _ => 32
  | ROpt _ => 8
  | RArr t' n => n * min_bits t'
  | RStruct fs => (fix go (fs : list (string * rty)) : nat := match fs with [] => 0 | f :: fs' => min_bits (snd f) + go fs' end) fs
  end%nat.

(* elements that may occupy no bit at all (an array of size 0, an empty struct ...) cannot be capped by the bits that are left:
   the announced count is then taken as it is, up to a size the evaluation can hold *)
Definition capped_for (t : rty) (len : Z) (r : bits) : nat :=
  if Nat.eqb (min_bits t) 0 then Z.to_nat (Z.min len 200000) else capped len r.

Definition gdec_capped (sdec : nat -> Z -> Z) : rty -> bits -> outcome (value * bits) :=
  fix dec (t : rty) (bs : bits) {struct t} : outcome (value * bits) :=
  match t with
  | RU n => bind (read_word n bs) (fun '(w, r) => Ok (VInt w, r))
  | RI n => bind (read_word n bs) (fun '(w, r) => Ok (VInt (sdec n w), r))
  | REnum n => bind (read_word n bs) (fun '(w, r) => Ok (VInt w, r))
  | RF32 => bind (read_word 32 bs) (fun '(w, r) => Ok (VBits w, r))
  | RF64 => bind (read_word 64 bs) (fun '(w, r) => Ok (VBits w, r))
  | RStr =>
      bind (read_word 32 bs) (fun '(len, r) =>
      bind (dec_rep (read_word 8) (capped len r) r) (fun '(cs, r') =>
      if forallb (fun c => c <? 128) cs then Ok (VStr cs, r') else Raise BadAscii))
  | RArr t n => bind (dec_rep (dec t) n bs) (fun '(vs, r) => Ok (VList vs, r))
  | RDyn t =>
      bind (read_word 32 bs) (fun '(len, r) =>
      bind (dec_rep (dec t) (capped_for t len r) r) (fun '(vs, r') => Ok (VList vs, r')))
  | ROpt t =>
      bind (read_word 8 bs) (fun '(w, r) =>
      if w =? 0 then Ok (VNone, r) else bind (dec t r) (fun '(v, r') => Ok (VSome v, r')))
  | RStruct fs =>
      bind (dec_seq (fun (f : string * rty) (b : bits) =>
                       bind (dec (snd f) b) (fun '(v, r) => Ok ((fst f, v), r))) fs bs)
           (fun '(kvs, r) => Ok (VStruct kvs, r))
  end.

Definition py_decode_capped (sc : schema) (name : string) (bytes : list Z) : option (outcome value) :=
  match resolve sc name with
  | Some t => Some (bind (gdec_capped py_sdec t (bits_of_bytes bytes)) (fun '(v, _) => Ok v))
  | None => None
  end.

(* Python has one None: a decoded Optional[Optional[T]] whose outer flag is set and inner flag clear (reachable only from
   corrupted input - the encoder cannot write it) is the same Python value as an absent one. The model's value is compared
   after the same collapse. *)
Fixpoint collapse (v : value) : value :=
  match v with
  | VSome x => match collapse x with VNone => VNone | y => VSome y end
  | VList l => VList (map collapse l)
  | VStruct kvs => VStruct (map (fun kv => (fst kv, collapse (snd kv))) kvs)
  | _ => v
  end.

(* observed outcomes of the real code *)
Inductive obs_dec := OVal (v : value) | OOverrun | OBadAscii | OOther.

Inductive op :=
| Enc (v : value) (observed : option (list Z))   (* None: encode raised *)
| Dec (bytes : list Z) (observed : obs_dec).

Definition case := (schema * string * op)%type.

Definition check_case (c : case) : bool :=
  let '(sc, name, o) := c in
  match resolve sc name with
  | None => false
  | Some t =>
      match o with
      | Enc v obs =>
          match canon t v with
          | None => false
          | Some cv =>
              (* the harness only sends in-range values: the model must type them *)
              has_type t cv &&
              option_eqb (list_eqb Z.eqb) (py_encode sc name cv) obs
          end
      | Dec bytes obs =>
          match py_decode_capped sc name bytes, obs with
          | Some (Ok v), OVal ov =>
              match canon t ov with Some cv => value_eqb (collapse v) (collapse cv) | None => false end
          | Some (Raise Overrun), OOverrun => true
          | Some (Raise BadAscii), OBadAscii => true
          | _, _ => false
          end
      end
  end.

(* the project's cross-language vectors against the specification (gen/StdVectors.v) *)
Definition check_vector (x : schema * string * value * list Z) : bool :=
  let '(sc, name, v, bytes) := x in
  match resolve sc name with
  | Some t =>
      match canon t v with
      | Some cv => has_type t cv && option_eqb (list_eqb Z.eqb) (wire_bytes t cv) (Some bytes)
      | None => false
      end
  | None => false
  end.

(* for replays: what the model computes *)
Definition model_of (c : case) :=
  let '(sc, name, o) := c in
  match o with
  | Enc v _ => (option_map (fun t => canon t v) (resolve sc name),
                match resolve sc name with
                | Some t => match canon t v with Some cv => py_encode sc name cv | None => None end
                | None => None end, None)
  | Dec bytes _ => (None, None, py_decode_capped sc name bytes)
  end.
