(* Correspondence runner for C19: scheduler histories. *)
From Coq Require Import ZArith List Bool.
From FcpV Require Import Base.Cases Sched.Sched.
Import ListNotations.
Open Scope Z_scope.

(* periods, history (wrapped time, frame of each message on the device of this
   call, as one integer), observed sends per call (message index, frame) *)
Definition case := (list Z * list (Z * list Z) * list (list (nat * Z)))%type.

Definition run_case (c : case) : list (list (nat * Z)) :=
  let '(ps, h, _) := c in
  sched_run ps (sched_init (length ps))
    (map (fun c => (fst c, fun i => nth i (snd c) (-1))) h).

Definition check_case (c : case) : bool :=
  list_eqb (list_eqb (pair_eqb Nat.eqb Z.eqb)) (run_case c) (snd c).
