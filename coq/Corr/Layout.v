(* Correspondence runner for the packed layout (C04, C14, C15). *)
From Coq Require Import String ZArith List Bool.
From FcpV Require Export Base.Cases Schema.Types Layout.Packed.
Import ListNotations.
Open Scope Z_scope.

Fixpoint sty_eqb (a b : sty) : bool :=
  match a, b with
  | SU n, SU m | SI n, SI m => Nat.eqb n m
  | SF32, SF32 | SF64, SF64 | SStr, SStr => true
  | SEnumRef s, SEnumRef r | SStructRef s, SStructRef r => String.eqb s r
  | SArr t n, SArr u m => sty_eqb t u && Nat.eqb n m
  | SDyn t, SDyn u | SOpt t, SOpt u => sty_eqb t u
  | _, _ => false
  end.

Definition xval_eqb (a b : xval) : bool :=
  match a, b with
  | XInt x, XInt y => Z.eqb x y
  | XStr x, XStr y => String.eqb x y
  | XOther, XOther => true
  | _, _ => false
  end.

(* what the harness reads off a Value: name, type, bitstart, bitlength, endianess, unit, extended_data *)
Definition opiece := (string * sty * Z * Z * string * option string * list (string * xval))%type.

Definition observe (p : piece) : opiece :=
  (pname p, pty p, pstart p, plen p, pend p, punit p, pext p).

Definition opiece_eqb (a b : opiece) : bool :=
  let '(n1, t1, s1, l1, e1, u1, x1) := a in
  let '(n2, t2, s2, l2, e2, u2, x2) := b in
  String.eqb n1 n2 && sty_eqb t1 t2 && Z.eqb s1 s2 && Z.eqb l1 l2 && String.eqb e1 e2 &&
  option_eqb String.eqb u1 u2 && list_eqb (pair_eqb String.eqb xval_eqb) x1 x2.

(* schema, unroll_arrays, the impls passed to generate() in order on ONE encoder,
   the observed result of each call (None = an exception escaped) *)
Definition case := (schema * bool * list simpl * list (option (list opiece)))%type.

Definition run_case (c : case) : list (option (list opiece)) :=
  let '(sc, unroll, ims, _) := c in
  map (option_map (map observe)) (generate_seq unroll sc encoder_init ims).

Definition check_case (c : case) : bool :=
  list_eqb (option_eqb (list_eqb opiece_eqb)) (run_case c) (snd c).
