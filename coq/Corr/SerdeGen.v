(* Correspondence runner for the TRANSLATED serde.py (gen/PyBuffer.v, gen/PyLeaf.v, gen/PyDispatch.v): the same cases as
   Corr/Serde.v, on which the translated encode()/decode() are additionally run (vm_compute) and compared with what the real
   code did.  This validates the translators and the hand-written run-time libraries (Py/BufferLib.v, Py/DispatchLib.v) against
   Python itself; the refinement theorems (Py/DispatchProofs.v) tie the translation to the model for all inputs. *)
From Coq Require Import String ZArith List Bool.
From FcpV Require Export Corr.Serde.
From FcpV Require Import Py.BufferLib Py.DispatchLib Py.DispatchDefs gen.PyBuffer gen.PyLeaf gen.PyDispatch.
Import ListNotations.
Open Scope Z_scope.

Fixpoint pyval_eqb (a b : pyval) {struct a} : bool :=
  match a, b with
  | PInt x, PInt y => Z.eqb x y
  | PFlt x, PFlt y => Z.eqb x y
  | PStr x, PStr y => list_eqb Z.eqb x y
  | PList x, PList y => list_eqb pyval_eqb x y
  | PNone, PNone => true
  | PDict x, PDict y => list_eqb (fun p q => String.eqb (fst p) (fst q) && pyval_eqb (snd p) (snd q)) x y
  | _, _ => false
  end.

(* Python's recursion limit stands in for the fuel; the generated schemas nest far less *)
Definition fuel : nat := 200.

Definition check_translated (c : case) : bool :=
  let '(sc, name, o) := c in
  match resolve sc name with
  | None => false
  | Some t =>
      match o with
      | Enc v obs =>
          match canon t v with
          | None => false
          | Some cv =>
              match PyDispatch.py_encode fuel sc name (embed t cv), obs with
              | POk b, Some b' => list_eqb Z.eqb b b'
              | PRaise _, None => true
              | _, _ => false
              end
          end
      | Dec bytes (OVal ov) =>
          (* only inputs the real decoder accepted: their announced counts are backed by data, so the unary loop counters of the
             translation stay small (a count of 2^32-1 with nothing behind it is decided by the capped model decoder instead) *)
          match canon t ov with
          | None => false
          | Some cv =>
              match PyDispatch.py_decode fuel sc name bytes with
              | POk pv => pyval_eqb pv (embed t cv)
              | PRaise _ => false
              end
          end
      | Dec _ _ => true
      end
  end.

Definition check_case_gen (c : case) : bool := check_case c && check_translated c.

(* the harness addresses cases as Corr.<module>.case *)
Definition case : Type := Serde.case.
