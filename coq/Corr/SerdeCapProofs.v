(* The executable decoder of the correspondence (Corr.Serde.gdec_capped, which caps an announced element count at the bits
   left + 1 so that a corrupted count of 2^32-1 is not unfolded into a unary number) is the generic decoder Wire.gdec itself,
   on every input, for every type whose dynamic-array elements occupy at least one bit; and a successful decode never
   consumes more bits than there are ("nothing is fabricated"). *)
From Coq Require Import String ZArith List Bool Lia Arith.
From FcpV Require Import Base.Bits Base.BitsProofs Schema.Types Wire.Wire Wire.WireProofs Corr.Serde.
Import ListNotations.
Open Scope Z_scope.

Lemma read_word_consumes n bs z r : read_word n bs = Ok (z, r) -> (length r + n = length bs)%nat.
Proof.
  unfold read_word. destruct (Nat.ltb_spec (length (firstn n bs)) n) as [|Hge]; [discriminate|].
  intros H. injection H as _ Hr; subst r. rewrite firstn_length in Hge. rewrite skipn_length. lia.
Qed.

Lemma dec_rep_consumes {V : Type} (f : bits -> outcome (V * bits)) (k : nat) :
  (forall b v r, f b = Ok (v, r) -> (length r + k <= length b)%nat) ->
  forall n bs vs r, dec_rep f n bs = Ok (vs, r) -> (length r + n * k <= length bs)%nat.
Proof.
  intros Hf. induction n as [|n IH]; intros bs vs r H.
  - cbn in H. injection H as _ Hr; subst r. lia.
  - cbn [dec_rep] in H. destruct (f bs) as [[v b1]|e] eqn:E1; [|discriminate]. cbn [bind] in H.
    destruct (dec_rep f n b1) as [[vs1 b2]|e] eqn:E2; [|discriminate]. cbn [bind] in H. injection H as _ Hr; subst r.
    apply Hf in E1. apply IH in E2. lia.
Qed.

Fixpoint min_bits_fields (fs : list (string * rty)) : nat :=
  match fs with [] => 0 | f :: fs' => min_bits (snd f) + min_bits_fields fs' end.

Lemma min_bits_struct fs : min_bits (RStruct fs) = min_bits_fields fs.
Proof. induction fs as [|f fs IH]; [reflexivity|]. cbn [min_bits min_bits_fields] in *. now rewrite <- IH. Qed.

(* a successful decode consumed at least min_bits and never more than was there *)
Theorem gdec_consumes sdec : forall t bs v r, gdec sdec t bs = Ok (v, r) -> (length r + min_bits t <= length bs)%nat.
Proof.
  induction t as [n|n| | | |w|t n IH|t IH|t IH|fs IH] using rty_ind2; intros bs v r H; cbn [gdec] in H.
  - destruct (read_word n bs) as [[z b]|] eqn:E; [|discriminate]. cbn [bind] in H. injection H as _ Hr; subst r. apply read_word_consumes in E. cbn. lia.
  - destruct (read_word n bs) as [[z b]|] eqn:E; [|discriminate]. cbn [bind] in H. injection H as _ Hr; subst r. apply read_word_consumes in E. cbn. lia.
  - destruct (read_word 32 bs) as [[z b]|] eqn:E; [|discriminate]. cbn [bind] in H. injection H as _ Hr; subst r. apply read_word_consumes in E. cbn. lia.
  - destruct (read_word 64 bs) as [[z b]|] eqn:E; [|discriminate]. cbn [bind] in H. injection H as _ Hr; subst r. apply read_word_consumes in E. cbn. lia.
  - destruct (read_word 32 bs) as [[z b]|] eqn:E; [|discriminate]. cbn [bind] in H.
    destruct (dec_rep (read_word 8) (Z.to_nat z) b) as [[cs b']|] eqn:E2; [|discriminate]. cbn [bind] in H.
    destruct (forallb _ cs); [|discriminate]. injection H as _ Hr; subst r.
    apply read_word_consumes in E. apply (dec_rep_consumes (read_word 8) 0) in E2; [cbn [min_bits]; lia|].
    intros b0 v0 r0 H0. apply read_word_consumes in H0. lia.
  - destruct (read_word w bs) as [[z b]|] eqn:E; [|discriminate]. cbn [bind] in H. injection H as _ Hr; subst r. apply read_word_consumes in E. cbn. lia.
  - destruct (dec_rep (gdec sdec t) n bs) as [[vs b]|] eqn:E; [|discriminate]. cbn [bind] in H. injection H as _ Hr; subst r.
    apply (dec_rep_consumes _ (min_bits t)) in E; [cbn [min_bits]; lia|exact IH].
  - destruct (read_word 32 bs) as [[z b]|] eqn:E; [|discriminate]. cbn [bind] in H.
    destruct (dec_rep (gdec sdec t) (Z.to_nat z) b) as [[vs b']|] eqn:E2; [|discriminate]. cbn [bind] in H. injection H as _ Hr; subst r.
    apply read_word_consumes in E. apply (dec_rep_consumes _ 0) in E2; [cbn [min_bits]; lia|].
    intros b0 v0 r0 H0. apply IH in H0. lia.
  - destruct (read_word 8 bs) as [[z b]|] eqn:E; [|discriminate]. cbn [bind] in H. apply read_word_consumes in E.
    destruct (z =? 0).
    + injection H as _ Hr; subst r. cbn [min_bits]. lia.
    + destruct (gdec sdec t b) as [[v0 b']|] eqn:E2; [|discriminate]. cbn [bind] in H. injection H as _ Hr; subst r. apply IH in E2. cbn [min_bits]. lia.
  - rewrite min_bits_struct.
    destruct (dec_seq _ fs bs) as [[kvs b]|] eqn:E; [|discriminate]. cbn [bind] in H. injection H as _ Hr; subst r.
    clear v. revert bs kvs b E. induction IH as [|f fs Hf _ IHfs]; intros bs kvs r E.
    + cbn in E. injection E as _ Hr; subst r. cbn. lia.
    + cbn [dec_seq] in E. destruct (gdec sdec (snd f) bs) as [[v0 b1]|] eqn:E1; [|discriminate]. cbn [bind] in E.
      destruct (dec_seq _ fs b1) as [[kvs1 b2]|] eqn:E2; [|discriminate]. cbn [bind] in E. injection E as _ Hr; subst r.
      apply Hf in E1. apply IHfs in E2. cbn [min_bits_fields]. lia.
Qed.

(* once more iterations are announced than bits are left, every count fails alike *)
Lemma dec_rep_cap {V : Type} (f : bits -> outcome (V * bits)) :
  (forall b v r, f b = Ok (v, r) -> (length r < length b)%nat) ->
  forall n n' bs, (length bs < n)%nat -> (length bs < n')%nat -> dec_rep f n bs = dec_rep f n' bs.
Proof.
  intros Hf. induction n as [|n IH]; intros n' bs Hn Hn'; [lia|]. destruct n' as [|n']; [lia|].
  cbn [dec_rep]. destruct (f bs) as [[v b1]|e] eqn:E; [|reflexivity]. cbn [bind].
  apply Hf in E. now rewrite (IH n' b1) by lia.
Qed.

Lemma dec_rep_ext {V : Type} (f g : bits -> outcome (V * bits)) : (forall b, f b = g b) -> forall n bs, dec_rep f n bs = dec_rep g n bs.
Proof.
  intros H. induction n as [|n IH]; intros bs; [reflexivity|]. cbn [dec_rep]. rewrite H.
  destruct (g bs) as [[v b1]|e]; [|reflexivity]. cbn [bind]. now rewrite IH.
Qed.

Lemma dec_seq_ext {A V : Type} (f g : A -> bits -> outcome (V * bits)) (ts : list A) :
  Forall (fun t => forall b, f t b = g t b) ts -> forall bs, dec_seq f ts bs = dec_seq g ts bs.
Proof.
  induction 1 as [|t ts Ht _ IH]; intros bs; [reflexivity|]. cbn [dec_seq]. rewrite Ht.
  destruct (g t bs) as [[v b1]|e]; [|reflexivity]. cbn [bind]. now rewrite IH.
Qed.

Lemma capped_rep {V : Type} (f : bits -> outcome (V * bits)) len r :
  (forall b v r0, f b = Ok (v, r0) -> (length r0 < length b)%nat) ->
  dec_rep f (capped len r) r = dec_rep f (Z.to_nat len) r.
Proof.
  intros Hf. unfold capped. destruct (Z.le_gt_cases len (Z.of_nat (S (length r)))) as [Hle|Hgt].
  - now rewrite Z.min_l.
  - rewrite Z.min_r by lia. rewrite Nat2Z.id. apply dec_rep_cap; [exact Hf|lia|lia].
Qed.

(* every dynamic array's element type occupies at least one bit (false only for arrays of size 0 and structs of such) *)
Fixpoint dyn_positive (t : rty) : bool :=
  match t with
  | RArr t' _ | ROpt t' => dyn_positive t'
  | RDyn t' => negb (Nat.eqb (min_bits t') 0) && dyn_positive t'
  | RStruct fs => (fix go (fs : list (string * rty)) : bool := match fs with [] => true | f :: fs' => dyn_positive (snd f) && go fs' end) fs
  | _ => true
  end.

Theorem gdec_capped_is_gdec sdec : forall t, dyn_positive t = true -> forall bs, gdec_capped sdec t bs = gdec sdec t bs.
Proof.
  induction t as [n|n| | | |w|t n IH|t IH|t IH|fs IH] using rty_ind2; intros Hp bs; cbn [gdec_capped gdec]; try reflexivity.
  - destruct (read_word 32 bs) as [[z b]|]; [|reflexivity]. cbn [bind].
    rewrite capped_rep; [reflexivity|]. intros b0 v r0 H0. apply read_word_consumes in H0. lia.
  - cbn [dyn_positive] in Hp. now rewrite (dec_rep_ext _ _ (IH Hp)).
  - cbn [dyn_positive] in Hp. apply andb_prop in Hp. destruct Hp as [Hm Hp].
    destruct (read_word 32 bs) as [[z b]|]; [|reflexivity]. cbn [bind].
    unfold capped_for. apply negb_true_iff in Hm. rewrite Hm.
    rewrite (dec_rep_ext _ _ (IH Hp)). rewrite capped_rep; [reflexivity|].
    intros b0 v r0 H0. apply gdec_consumes in H0. apply Nat.eqb_neq in Hm. lia.
  - cbn [dyn_positive] in Hp. destruct (read_word 8 bs) as [[z b]|]; [|reflexivity]. cbn [bind].
    destruct (z =? 0); [reflexivity|]. now rewrite (IH Hp).
  - assert (Hall : Forall (fun f : string * rty => forall b, gdec_capped sdec (snd f) b = gdec sdec (snd f) b) fs).
    { cbn [dyn_positive] in Hp. induction IH as [|f fs Hf _ IHfs]; constructor.
      - apply Hf. now apply andb_prop in Hp.
      - apply IHfs. now apply andb_prop in Hp. }
    rewrite (dec_seq_ext _ (fun (f : string * rty) (b : bits) => bind (gdec sdec (snd f) b) (fun '(v, r) => Ok ((fst f, v), r))) fs); [reflexivity|].
    eapply Forall_impl; [|exact Hall]. intros f Hf b. cbn beta. now rewrite Hf.
Qed.
