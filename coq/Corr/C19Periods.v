(* Correspondence runner for C19, second part: the periods the scheduler model is run with are those of the device's CAN bindings as
   written in the schema - the right-hand side of CanC.CWriterProofs.scheduler_periods_are_the_bindings, evaluated on the parsed
   bindings.  (bindings of the schema, device name, periods the harness read off its own descriptor and gave to Corr.C19) *)
From Coq Require Import String ZArith List Bool.
From FcpV Require Export Base.Cases Schema.Types Layout.Packed.
From FcpV Require Import Dbc.DbcModel CanC.CWriterLib CanC.CWriterProofs.
Import ListNotations.
Open Scope Z_scope.

Definition case := (list simpl * string * list Z)%type.

Definition periods_of (ims : list simpl) (d : string) : list Z :=
  map (fun im => impl_int_default im "period" (-1))
      (filter (fun im => is_can im && String.eqb d (impl_str_default im "device" "global")) ims).

Definition check_case (c : case) : bool :=
  let '(ims, d, ps) := c in list_eqb Z.eqb (periods_of ims d) ps.
