(* C11 — the parser is total.  Statements only (in progress). *)
From Coq Require Import String ZArith List Bool.
From FcpV Require Import Schema.Types Front.Lexer Front.Parser Front.Elab.
Import ListNotations.
Open Scope string_scope.

(* the model front end is a total function whose result is a tree, an error
   value, or "outside the model": by construction nothing else can come out *)
Theorem front_end_total :
  forall o fs root, (exists f, front_end o fs root = EOk f) \/ (exists n, front_end o fs root = EErr n) \/ front_end o fs root = EDomain.
Proof.
  intros o fs root. unfold front_end. generalize 8%nat. intros fuel. destruct fuel as [|fuel]; cbn [elab_file]; [auto|].
  destruct (read_file fs root) as [src|]; [|eauto].
  destruct (Parser.parse src) as [[ver its]|]; [|eauto].
  destruct (elab_items o (elab_file fuel o fs) root front_empty _ its); cbn [eadd]; eauto.
Qed.
Print Assumptions front_end_total.
