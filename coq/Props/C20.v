(* C20 — module imports are transparent.  Statements only. *)
From Coq Require Import String ZArith List Bool.
From FcpV Require Import Schema.Types Front.Lexer Front.Parser Front.Elab Front.ElabProofs.
From FcpV Require Import Verifier.Checks Py.BufferLib Py.DispatchLib Verifier.ChecksLib Layout.Packed Layout.EncoderLib Specs.SpecsLib Specs.SpecsProofs.
Import ListNotations.
Open Scope string_scope.

(* `mod a.b.c;` in a file of directory d reads d/a/b/c.fcp *)
Theorem module_path_is_relative_to_importer :
  forall dir file parts last_part,
    mod_target (dir ++ [file])%list (parts ++ [last_part])%list = (dir ++ parts ++ [(last_part ++ ".fcp")%string])%list.
Proof.
  intros. unfold mod_target, dir_of. rewrite !removelast_last, last_last. reflexivity.
Qed.
Print Assumptions module_path_is_relative_to_importer.

(* importing a module whose file elaborates (on its own, with fresh tables) to
   m merges exactly m - structs, enums, impls, services, devices - into the tree so far *)
Theorem import_is_merge :
  forall o recur self acc parts m,
    recur (mod_target self parts) = EOk m ->
    elab_item o recur self acc (IMod parts) = EOk (front_merge acc m).
Proof. intros. cbn. now rewrite H. Qed.
Print Assumptions import_is_merge.

(* ... and that is what writing the module's declarations in place of the
   import gives (a module that itself imports nothing; no struct of the
   importer carries the name of one of the module's enums) *)
Theorem split_equals_single :
  forall o recur self self' its acc m,
    forallb (fun it => negb (is_mod it)) its = true ->
    (forall n, In n (names_structs acc) -> ~ In n (names_enums m)) ->
    elab_items o recur self front_empty None its = EOk m ->
    elab_items o recur self' acc None its = EOk (front_merge acc m).
Proof.
  intros o recur self self' its acc m Hnm Hcap H.
  pose proof (inline_equals_merge o recur self self' its acc front_empty m Hnm Hcap H) as G.
  assert (E : front_merge acc front_empty = acc) by (destruct acc; unfold front_merge; cbn; now rewrite !app_nil_r).
  now rewrite E in G.
Qed.
Print Assumptions split_equals_single.

(* an error inside a module comes back as an error value that names the module
   file; a missing module as one that names the missing file *)
Theorem module_error_names_module :
  forall o recur self acc parts ns,
    recur (mod_target self parts) = EErr ns ->
    elab_item o recur self acc (IMod parts) = EErr (ns ++ [base_of (mod_target self parts)])%list.
Proof. intros. cbn. now rewrite H. Qed.
Print Assumptions module_error_names_module.

Theorem missing_module_names_file :
  forall fuel o fs p, read_file fs p = None -> elab_file (S fuel) o fs p = EErr [base_of p].
Proof. intros. cbn. now rewrite H. Qed.
Print Assumptions missing_module_names_file.

Example c20_nonvacuous :
  let m := "version: ""3"" enum E { A = 1, } struct P { e @0: E, } service Sv @1 { method f(P) @0 returns P, }" in
  let split := [(["main.fcp"], "version: ""3"" struct A { x @0: u8, } mod lib.m; struct B { p @1: P, }");
                (["lib"; "m.fcp"], m)] in
  let single := [(["main.fcp"], "version: ""3"" struct A { x @0: u8, } enum E { A = 1, } struct P { e @0: E, } service Sv @1 { method f(P) @0 returns P, } struct B { p @1: P, }")] in
  match front_end [] split ["main.fcp"], front_end [] single ["main.fcp"] with
  | EOk a, EOk b => a = b /\ length (f_services a) = 1%nat
  | _, _ => False
  end.
Proof. vm_compute. split; reflexivity. Qed.

(* ---- FcpV2.merge itself (translated from specs/v2.py on every run, gen/PySpecs.v): every list of the importer is extended by the
   module's - structs, enums, bindings, services and devices - and nothing else changes ---- *)
Theorem source_merge_is_append :
  forall t m,
    PySpecs.py_FcpV2_merge t m = POk {| t_structs := t_structs t ++ t_structs m; t_enums := t_enums t ++ t_enums m; t_impls := t_impls t ++ t_impls m;
                                        t_services := t_services t ++ t_services m; t_devices := t_devices t ++ t_devices m |}.
Proof. exact merge_is_append. Qed.
Print Assumptions source_merge_is_append.
