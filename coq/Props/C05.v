(* C05 — the generated DBC describes exactly the packed layout of every CAN binding.
   Statements only. *)
From Coq Require Import String ZArith List Bool Lia.
From FcpV Require Import Base.Bits Schema.Types Layout.Packed Layout.PackedProofs Verifier.Checks.
From FcpV Require Dbc.DbcLib Dbc.DbcSrcProofs gen.PyDbc.
From FcpV Require Import Dbc.DbcModel Dbc.DbcSem Dbc.DbcProofs Base.Cases.
Import ListNotations.
Open Scope Z_scope.

(* Whenever DBC generation succeeds, every message of every bus file is the
   description of one CAN binding bound to that bus: its frame id and name, a
   length of ceil(bits/8) bytes, and one signal per layout leaf built by
   sig_of_piece (same position - Motorola start = position + 7 -, width,
   signedness, float marking, byte order, unit, multiplexing) *)
Theorem dbc_describes_layout :
  forall sc ims out, write_dbc sc ims = Some out ->
    forall bus m, In (bus, m) (msgs_of out) -> exists im, In im ims /\ describes sc im bus m.
Proof.
  intros sc ims out H bus m Hin.
  destruct (write_msgs_sound sc ims [] out H bus m Hin) as [[]|Hd]. exact Hd.
Qed.
Print Assumptions dbc_describes_layout.

(* ... and each bus file contains a message for every CAN binding on that bus *)
Theorem dbc_bus_partition :
  forall sc ims out, write_dbc sc ims = Some out ->
    forall im, In im ims -> iprotocol im = "can"%string ->
      exists m, In (bus_of im, m) (msgs_of out) /\ mname m = iname im.
Proof. intros sc ims out H. exact (proj2 (write_msgs_complete sc ims [] out H)). Qed.
Print Assumptions dbc_bus_partition.

(* a frame packed according to the layout decodes, through the Intel
   (little-endian) reading of a signal at the leaf's position and width, to
   the value packed (modulo 2^width), for every leaf of every layout *)
Theorem dbc_decodes_packed_le :
  forall unroll sc e im ps vs rest i p v,
    snd (generate unroll sc e im) = Some ps -> length vs = length ps ->
    nth_error ps i = Some p -> nth_error vs i = Some v ->
    le_extract (Z.to_nat (pstart p)) (Z.to_nat (plen p)) (pack ps vs ++ rest) = v mod 2 ^ plen p.
Proof.
  intros unroll sc e im ps vs rest i p v Hg Hl Hp Hv.
  destruct (layout_tiles_lemma _ _ _ _ _ Hg) as [Hc _].
  pose proof (generate_nonneg _ _ _ _ _ Hg) as Hn.
  pose proof (le_decodes_packed ps vs 0 _ rest i p v Hc Hn Hl Hp Hv) as H.
  now rewrite Z.sub_0_r in H.
Qed.
Print Assumptions dbc_decodes_packed_le.

(* Motorola: for a byte-aligned signal of k whole bytes starting at byte b
   (b + k <= 8), start bit 8b+7 makes a DBC reader take exactly the bits of
   bytes b .. b+k-1, most significant first (finite domain, decided by evaluation) *)
Theorem dbc_be_start_bit_reads_whole_bytes :
  forall b k, (b < 8)%nat -> (k <= 8)%nat -> (b + k <= 8)%nat ->
    be_positions (8 * b + 7) (8 * k) = bytes_msb_first b k.
Proof.
  intros b k Hb Hk Hbk. pose proof be_positions_byte_aligned_all as H.
  rewrite forallb_forall in H. specialize (H b ltac:(apply in_seq; lia)).
  rewrite forallb_forall in H. specialize (H k ltac:(apply in_seq; lia)).
  apply Nat.leb_le in Hbk. rewrite Hbk in H.
  revert H. generalize (be_positions (8 * b + 7) (8 * k)) (bytes_msb_first b k).
  induction l as [|x l IH]; intros [|y l'] H; cbn in H; try discriminate; [reflexivity|].
  apply andb_true_iff in H. destruct H as [H1 H2]. apply Nat.eqb_eq in H1. subst. f_equal. now apply IH.
Qed.
Print Assumptions dbc_be_start_bit_reads_whole_bytes.

(* ---- _make_signals of plugins/fcp_dbc/fcp_dbc/dbc_writer.py is translated from the source on every run (gen/PyDbc.v): the signals
   and the message length it computes from a layout are the model's, and it raises exactly when the model has no result (an empty
   layout; more than 64 bits) ---- *)
Theorem source_make_signals_is_the_model :
  forall ps, DbcSrcProofs.res_of (PyDbc.py_make_signals ps) = make_signals ps.
Proof. exact DbcSrcProofs.make_signals_is_model. Qed.
Print Assumptions source_make_signals_is_the_model.

(* write_dbc of the same file, translated as well: per bus, the messages handed to cantools (id, name, length, signals), in the model's
   order; it raises / returns Err exactly when the model has no result *)
Theorem source_write_dbc_is_the_model :
  forall sc ims, option_map DbcSrcProofs.drop_nodes (DbcSrcProofs.dres_of (PyDbc.py_write_dbc sc ims)) = write_dbc sc ims.
Proof. exact DbcSrcProofs.write_dbc_is_model. Qed.
Print Assumptions source_write_dbc_is_the_model.

Example c05_nonvacuous :
  let sc := {| structs := [ {| sname := "Foo"; sfields :=
                 [ {| fname := "s1"; fid := 0; fty := SU 8; funit := None |};
                   {| fname := "s2"; fid := 1; fty := SI 16; funit := Some "V"%string |} ] |} ]; enums := [] |} in
  let im := {| iname := "Foo"; iprotocol := "can"; itype := "Foo"; ifields := [("id"%string, XInt 10)];
               isignals := [ {| sbname := "s2"; sbfields := [("endianess"%string, XStr "big")] |} ] |} in
  match write_dbc sc [im] with
  | Some [(bus, [m])] => bus = "default"%string /\ mid m = 10 /\ mdlc m = 3 /\
      map (fun g => (gname g, gstart g, glen g, gbig g, gsigned g)) (msignals m)
      = [("s1"%string, 0, 8, false, false); ("s2"%string, 15, 16, true, true)]
  | _ => False
  end.
Proof. vm_compute. repeat split; reflexivity. Qed.
