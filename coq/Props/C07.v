(* C07 — parsing is the inverse of printing.  Statements only (in progress: see the manifest). *)
From Coq Require Import String ZArith List Bool.
From FcpV Require Import Front.Lexer Front.Parser Front.Elab.
Import ListNotations.
Open Scope string_scope.

Example c07_nonvacuous :
  parse "version: ""3""  struct A { x @0: Optional[[u8, 3]] | unit(""V"") range(0.5, 1e3,), }  /* c */ enum E { P = -1, }"
  = Some ("3", [IStruct "A" [ {| pf_name := "x"; pf_id := PVInt 0; pf_type := PTOpt (PTArr (PTU 8) (PVInt 3));
                                 pf_params := [ {| pp_name := "unit"; pp_args := [PVStr "V"] |};
                                                {| pp_name := "range"; pp_args := [PVFloat "0.5"; PVFloat "1e3"] |} ] |} ];
                 IEnum "E" [("P", PVInt (-1))]]).
Proof. vm_compute. reflexivity. Qed.
