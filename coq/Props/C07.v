(* C07 — parsing is the inverse of printing.  Statements only; proofs in
   Front/ParserProofs.v, Front/ParserFormatProofs.v, Front/LexerProofs.v,
   Front/FrontFormatProofs.v. *)
From Coq Require Import String Ascii ZArith List Bool.
From FcpV Require Import Schema.Types Front.Lexer Front.Parser Front.Elab Front.Printer
  Front.ParserProofs Front.ParserFormatProofs Front.LexerProofs Front.FrontFormatProofs.
Import ListNotations.
Open Scope string_scope.

(* 1. printing a well-formed description to tokens and parsing them returns the description: every production, any nesting
      depth of types and values, any number of items (no bound: induction over the description) *)
Theorem parse_inverts_print :
  forall version its, wf_items its = true -> parse_tokens (print_tokens version its) = Some (version, its).
Proof. exact parse_print_tokens. Qed.
Print Assumptions parse_inverts_print.

(* 2. ... and so does every other spelling of it: with or without "|" before a parameter or before a field's closing comma,
      with or without "," after a parameter argument, with or without the "as" of a binding *)
Theorem optional_separators_do_not_matter :
  forall version its tss, wf_items its = true -> Forall2 item_toks its tss ->
    parse_tokens (TId "version" :: P ":" :: TStr version :: concat tss) = Some (version, its).
Proof. exact parse_spelled. Qed.
Print Assumptions optional_separators_do_not_matter.

Theorem canonical_is_a_spelling : forall it, item_toks it (print_item it).
Proof. exact item_toks_canonical. Qed.
Print Assumptions canonical_is_a_spelling.

(* 3. white space and comments do not matter: a text made of the tokens' texts with any blanks (spaces, tabs, newlines,
      // and /* */ comments) between them - empty only where the next character cannot extend the previous token - lexes to
      exactly those tokens *)
Theorem formatting_does_not_matter : forall ts src, spelled ts src -> lex src = Some ts.
Proof. exact lex_spelled. Qed.
Print Assumptions formatting_does_not_matter.

(* 1-3 together: source text in, description out *)
Theorem parse_of_any_rendering :
  forall version its tss src, wf_items its = true -> Forall2 item_toks its tss ->
    spelled (TId "version" :: P ":" :: TStr version :: concat tss) src ->
    parse src = Some (version, its).
Proof.
  intros version its tss src Hwf Hits Hsp. unfold parse. rewrite (lex_spelled _ _ Hsp). now apply parse_spelled.
Qed.
Print Assumptions parse_of_any_rendering.

(* 4. the tree (or error) the front end returns depends on the files only through what they parse to: any two renderings of
      the same descriptions give the same answer, through any module graph *)
Theorem front_end_depends_on_parse_only :
  forall o fs1 fs2 root, same_parse fs1 fs2 -> front_end o fs1 root = front_end o fs2 root.
Proof. exact front_end_same_parse. Qed.
Print Assumptions front_end_depends_on_parse_only.

Example c07_nonvacuous :
  parse "version: ""3""  struct A { x @0: Optional[[u8, 3]] | unit(""V"") range(0.5, 1e3,), }  /* c */ enum E { P = -1, }"
  = Some ("3", [IStruct "A" [ {| pf_name := "x"; pf_id := PVInt 0; pf_type := PTOpt (PTArr (PTU 8) (PVInt 3));
                                 pf_params := [ {| pp_name := "unit"; pp_args := [PVStr "V"] |};
                                                {| pp_name := "range"; pp_args := [PVFloat "0.5"; PVFloat "1e3"] |} ] |} ];
                 IEnum "E" [("P", PVInt (-1))]]).
Proof. vm_compute. reflexivity. Qed.

(* the hypotheses of 1-3 are met by a description with every kind of item ... *)
Example c07_wf_nonvacuous :
  wf_items [IStruct "A" [ {| pf_name := "x"; pf_id := PVInt 0; pf_type := PTOpt (PTArr (PTRef "E") (PVInt 3));
                             pf_params := [ {| pp_name := "range"; pp_args := [PVFloat "0.5"; PVArr [PVInt 1; PVStr "s"]] |} ] |} ];
            IEnum "E" []; IImpl "can" "A" (Some "B") [PExt "id" (PVInt 5); PSig "x" [("scale", PVFloat "1.5")]];
            IService "S" (PVInt 1) [ {| pm_name := "m"; pm_input := "A"; pm_id := PVInt 0; pm_output := "A" |} ];
            IDevice "d" [("k", PVStr "v")]; IMod ["a"; "b"]] = true.
Proof. vm_compute. reflexivity. Qed.

(* ... and a text with comments, no blank where none is needed, and a trailing line comment is a spelling *)
Example c07_spelled_nonvacuous : spelled [TId "a"; TPunct ":"; TInt (-5); TStr "x y"] " a/* c */:-5 ""x y""// end".
Proof.
  apply (SP_id " " "a" "" "/* c */:-5 ""x y""// end"); [apply B_space; [reflexivity|apply B_nil]|reflexivity|reflexivity|reflexivity|].
  apply (SP_punct "/* c */" ":" "-5 ""x y""// end"); [apply (B_block " c " ""); [reflexivity|apply B_nil]|reflexivity|discriminate|].
  apply (SP_snum "" true "5" false " ""x y""// end"); [apply B_nil|reflexivity|reflexivity|].
  apply (SP_str " " "x y" "// end"); [apply B_space; [reflexivity|apply B_nil]|reflexivity|].
  apply (SP_end_line "" " end"); [apply B_nil|reflexivity].
Qed.
