(* C03 — the generated C++ static codec speaks the canonical wire format.  Statements only. *)
From Coq Require Import String ZArith List Bool Lia.
From FcpV Require Import Base.Bits Schema.Types Wire.Wire Py.PySerde Cpp.CppStatic Cpp.CppStaticProofs.
Import ListNotations.
Open Scope Z_scope.

(* integer widths 1..64 map to a carrier wide enough to hold them: 8, 16, 32 or 64 bits *)
Theorem cpp_carrier_wide_enough :
  forall n, (1 <= n <= 64)%nat ->
    Z.of_nat n <= carrier n /\ (carrier n = 8 \/ carrier n = 16 \/ carrier n = 32 \/ carrier n = 64).
Proof. exact carrier_wide_enough. Qed.
Print Assumptions cpp_carrier_wide_enough.

(* Buffer::GetWord's `(result ^ mask) - mask` in uint64 arithmetic (with its
   64-bit special case) followed by the cast to the carrier is two's
   complement, for every width 1..64 and every word *)
Theorem cpp_sign_extension_is_twos_complement :
  forall n w, (1 <= n <= 64)%nat -> 0 <= w < 2 ^ Z.of_nat n -> cpp_sdec n w = sdec_spec n w.
Proof. exact cpp_sdec_is_spec. Qed.
Print Assumptions cpp_sign_extension_is_twos_complement.

(* the generated encoder produces exactly the canonical bytes ... *)
Theorem cpp_encode_is_wire :
  forall sc name t v bytes, resolve sc name = Some t -> cpp_encode sc name v = Some bytes -> wire_bytes t v = Some bytes.
Proof. exact cpp_encode_is_wire_lemma. Qed.
Print Assumptions cpp_encode_is_wire.

(* ... hence the same bytes as the Python codec ... *)
Theorem cpp_equals_python :
  forall sc name v bytes, cpp_encode sc name v = Some bytes -> py_encode sc name v = Some bytes.
Proof. exact cpp_equals_python_lemma. Qed.
Print Assumptions cpp_equals_python.

(* ... and the generated decoder maps canonical bytes back to the value, the
   signed minimum included (unlike the Python decoder) *)
Theorem cpp_decode_of_wire :
  forall sc name t v bytes, resolve sc name = Some t -> has_type_gen cpp_okS t v = true ->
    wire_bytes t v = Some bytes -> cpp_decode sc name bytes = Some (Ok v).
Proof. exact cpp_decode_of_wire_lemma. Qed.
Print Assumptions cpp_decode_of_wire.

(* enums use their minimal bit width: packed_size m = max 1 (bit length of m) *)
Theorem enum_width_minimal :
  forall m, 2 <= m -> 2 ^ (Z.of_nat (packed_size m) - 1) <= m < 2 ^ Z.of_nat (packed_size m).
Proof.
  intros m Hm. unfold packed_size. destruct (Z.leb_spec m 1); [lia|].
  rewrite Z2Nat.id by (pose proof (Z.log2_nonneg m); lia).
  replace (Z.log2 m + 1 - 1) with (Z.log2 m) by lia. replace (Z.log2 m + 1) with (Z.succ (Z.log2 m)) by lia.
  apply Z.log2_spec. lia.
Qed.
Print Assumptions enum_width_minimal.

Example c03_nonvacuous :
  let sc := {| structs := [ {| sname := "S"; sfields := [ {| fname := "a"; fid := 1; fty := SI 5; funit := None |};
                                                         {| fname := "b"; fid := 0; fty := SI 64; funit := None |} ] |} ]; enums := [] |} in
  let v := VStruct [("b"%string, VInt (-9223372036854775808)); ("a"%string, VInt (-16))] in
  match cpp_encode sc "S" v with
  | Some bytes => cpp_decode sc "S" bytes = Some (Ok v) /\ length bytes = 9%nat
  | None => False
  end.
Proof. vm_compute. split; reflexivity. Qed.
