(* C14 — CAN messages that do not fit a frame are rejected, never truncated.  Statements only. *)
From Coq Require Import String ZArith List Bool.
From FcpV Require Import Schema.Types Layout.Packed Layout.PackedProofs Verifier.Checks Verifier.VerifierProofs.
From FcpV Require Dbc.DbcLib Dbc.DbcSrcProofs gen.PyDbc.
From FcpV Require Import Dbc.DbcModel Dbc.DbcProofs Codegen.Pipeline Codegen.PipelineProofs.
From FcpV Require Import Py.BufferLib Verifier.ChecksLib Verifier.ChecksProofs.
From FcpV Require Import Layout.EncoderLib Layout.EncoderProofs Layout.EncoderFailProofs.
From FcpV Require Import Verifier.Checks Py.BufferLib Py.DispatchLib Verifier.ChecksLib Layout.Packed Layout.EncoderLib Specs.SpecsLib Specs.SpecsProofs.
Import ListNotations.
Open Scope Z_scope.

(* every message of every generated DBC: at most 8 bytes, its signals are the
   leaves of a layout that lies inside 8*dlc <= 64 bits, and the leaves are
   pairwise disjoint (no signal extends beyond its message or overlaps another) *)
Theorem dbc_ok_implies_fits :
  forall sc ims out, write_dbc sc ims = Some out ->
    forall bus m, In (bus, m) (msgs_of out) ->
      exists im ps, In im ims /\ snd (generate true sc encoder_init im) = Some ps /\
        msignals m = map (sig_of_piece (mux_signals_of ps)) ps /\
        0 <= mdlc m <= 8 /\ total_bits ps <= 8 * mdlc m /\ total_bits ps <= 64 /\
        Forall (fun p => 0 <= pstart p /\ pstart p + plen p <= total_bits ps) ps /\
        (forall i j p q, nth_error ps i = Some p -> nth_error ps j = Some q -> (i < j)%nat ->
                         pstart p + plen p <= pstart q).
Proof. exact dbc_fits. Qed.
Print Assumptions dbc_ok_implies_fits.

(* a CAN binding whose packed size exceeds 64 bits, wherever the excess sits
   (any field, nested struct or array), makes DBC generation fail *)
Theorem dbc_rejects_oversize :
  forall sc ims im ps, In im ims -> iprotocol im = "can"%string ->
    snd (generate true sc encoder_init im) = Some ps -> 64 < total_bits ps ->
    write_dbc sc ims = None.
Proof. intros sc ims im ps Hin Hc Hg Hb. apply (write_msgs_rejects sc ims [] im Hin Hc). right. eauto. Qed.
Print Assumptions dbc_rejects_oversize.

(* ... and so does one whose struct has no static layout (string, dynamic
   array, optional at any place, unknown struct) *)
Theorem dbc_rejects_variable :
  forall sc ims im, In im ims -> iprotocol im = "can"%string ->
    snd (generate true sc encoder_init im) = None -> write_dbc sc ims = None.
Proof. intros sc ims im Hin Hc Hg. apply (write_msgs_rejects sc ims [] im Hin Hc). now left. Qed.
Print Assumptions dbc_rejects_variable.

(* a variable-size field anywhere has no layout *)
Theorem variable_field_has_no_layout :
  forall es t, (t = SStr \/ (exists u, t = SDyn u) \/ (exists u, t = SOpt u)) -> leaf_of es t = LBad.
Proof. intros es t [->|[[u ->]|[u ->]]]; reflexivity. Qed.
Print Assumptions variable_field_has_no_layout.

(* the C command: unless every binding's size is computable and <= 64 the
   command fails (error value or exception) and writes nothing *)
Theorem c_command_rejects_oversize :
  forall t out fs i, In i (t_impls t) -> chk_c_size t i <> Some true ->
    exists r, manager_generate CanC t out fs = (r, fs) /\ r <> Ret (ROk tt).
Proof.
  intros t out fs i Hin Hbad.
  destruct (verify CanC t) eqn:Ev.
  - exfalso. apply c_verdict_iff_lemma in Ev. destruct Ev as (_ & _ & Hs).
    rewrite Forall_forall in Hs. exact (Hbad (Hs i Hin)).
  - eexists. split; [apply rejected_writes_nothing_lemma; exact Ev|discriminate].
  - eexists. split; [apply raising_check_writes_nothing_lemma; exact Ev|discriminate].
Qed.
Print Assumptions c_command_rejects_oversize.

Example c14_nonvacuous :
  let sc := {| structs := [ {| sname := "Foo"; sfields :=
                 [ {| fname := "s1"; fid := 0; fty := SU 32; funit := None |};
                   {| fname := "s2"; fid := 1; fty := SU 32; funit := None |};
                   {| fname := "s3"; fid := 2; fty := SU 8; funit := None |} ] |} ]; enums := [] |} in
  let im := {| iname := "Foo"; iprotocol := "can"; itype := "Foo"; ifields := [("id"%string, XInt 10)]; isignals := [] |} in
  (exists ps, snd (generate true sc encoder_init im) = Some ps /\ total_bits ps = 72) /\ write_dbc sc [im] = None.
Proof. split; [eexists; split; vm_compute; reflexivity|vm_compute; reflexivity]. Qed.

(* ---- the C plug-in's size rule itself (check_impl_size, translated from plugins/fcp_can_c/fcp_can_c/generator.py on every run:
   gen/PyChecks.v): it answers Ok / "way too big" / raises exactly as the model's chk_c_size, on which c_command_rejects_oversize
   rests ---- *)
Theorem source_c_size_rule_is_model :
  forall t i,
    match chk_c_size t i with
    | Some b => PyChecks.CanC.py_check_impl_size t i = POk b
    | None => exists e, PyChecks.CanC.py_check_impl_size t i = PRaise e
    end.
Proof. exact c_size_is_model. Qed.
Print Assumptions source_c_size_rule_is_model.

(* ---- the encoder itself (class PackedEncoder translated from encoding.py on every run: gen/PyEncoder.v): a binding whose struct
   resolves but has no static layout - a string, dynamic array or optional anywhere, also nested or inside an array - makes the
   translated generate() raise, which is what DBC generation (dbc_rejects_variable) relies on ---- *)
Theorem source_no_layout_raises :
  forall sc unroll (e : encoder) im (e0 : penc) fuel l,
    NoDup (map sname (structs sc)) -> sig_ok im -> pe_fcp e0 = sc -> pe_unroll e0 = unroll ->
    lresolve unroll sc (itype im) = Some l -> (ldepth l <= fuel)%nat ->
    snd (generate unroll sc e im) = None ->
    exists ex, PyEncoder.py_generate fuel e0 im = PRaise ex.
Proof.
  intros sc unroll e im e0 fuel l Hn Hs H1 H2 Hl Hf Hg.
  pose proof (translated_generate_agrees sc unroll e im e0 fuel l Hn Hs H1 H2 Hl Hf) as H. now rewrite Hg in H.
Qed.
Print Assumptions source_no_layout_raises.

(* ---- what the translated PackedEncoder calls outside its own class (FcpV2.get_type, Impl.get_signal, Enum.get_packed_size,
   PackedEncoderContext.with_unroll_arrays: translated on every run, gen/PySpecs.v) is what its run-time library assumes ---- *)
Theorem source_encoder_lookups_are_the_library :
  (forall t ty, is_StructType ty || is_EnumType ty = true ->
     match py_get_type (schema_of t) ty, PySpecs.py_FcpV2_get_type t ty with
     | POk (PTStruct s), POk (Some (TNStruct s')) => s = s'
     | POk (PTEnum e), POk (Some (TNEnum e')) => e = e'
     | PRaise _, POk None => True
     | _, _ => False
     end) /\
  (forall im name, PySpecs.py_Impl_get_signal im name = POk (find (fun sb => String.eqb (sbname sb) name) (isignals im)) /\
     sig_fields im name = match find (fun sb => String.eqb (sbname sb) name) (isignals im) with Some sb => sbfields sb | None => [] end) /\
  (forall e, Forall (fun v => 0 <= v) (map snd (evals e)) -> PySpecs.py_Enum_get_packed_size e = POk (enum_packed_size e)) /\
  (forall c b, PySpecs.py_PackedEncoderContext_with_unroll_arrays c b = POk (c, {| unroll_arrays := b |})).
Proof.
  repeat split; intros.
  - now apply get_type_is_library. - apply get_signal_is_library. - now apply get_packed_size_is_model.
Qed.
Print Assumptions source_encoder_lookups_are_the_library.

(* ---- _make_signals of plugins/fcp_dbc/fcp_dbc/dbc_writer.py is translated from the source on every run (gen/PyDbc.v): the signals
   and the message length it computes from a layout are the model's, and it raises exactly when the model has no result (an empty
   layout; more than 64 bits) ---- *)
Theorem source_size_guard_is_the_model :
  forall ps, DbcSrcProofs.res_of (PyDbc.py_make_signals ps) = make_signals ps.
Proof. exact DbcSrcProofs.make_signals_is_model. Qed.
Print Assumptions source_size_guard_is_the_model.

(* write_dbc of the same file, translated as well: per bus, the messages handed to cantools (id, name, length, signals), in the model's
   order; it raises / returns Err exactly when the model has no result *)
Theorem source_write_dbc_is_the_model :
  forall sc ims, option_map DbcSrcProofs.drop_nodes (DbcSrcProofs.dres_of (PyDbc.py_write_dbc sc ims)) = write_dbc sc ims.
Proof. exact DbcSrcProofs.write_dbc_is_model. Qed.
Print Assumptions source_write_dbc_is_the_model.
