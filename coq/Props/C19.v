(* C19 — generated C message scheduler honours periods over every call history.
   Only statements; every proof is `exact <lemma>`. *)
From Coq Require Import String ZArith List Bool.
From FcpV Require Import Sched.Sched Sched.SchedProofs.
From FcpV Require Import Sched.SchedGenLib Sched.SchedGenProofs.
From FcpV Require Py.BufferLib Dbc.DbcModel Dbc.DbcLib Dbc.DbcSrcProofs CanC.CWriterLib CanC.CWriterProofs gen.PyCanC.
Import ListNotations.
Open Scope Z_scope.

(* The C scheduler (uint32 wrapping arithmetic, static last_call/last_send) on
   the wrapped timestamps behaves exactly like the ideal scheduler over
   unbounded true time, for every device (any number of messages, periods -1
   or 0..M) and every call history whose true times are non-decreasing with
   gaps below 2^32 - M (the first gap measured from 0). No bound on length. *)
Theorem sched_refines_ideal :
  forall (F : Type) (M : Z) (ps : list Z) (h : list (Z * (nat -> F))),
    periods_ok M ps -> 0 <= M < W -> gaps_ok M 0 h ->
    sched_run ps (sched_init (length ps)) (wrap_hist h)
    = ideal_run ps (sched_init (length ps)) h.
Proof. exact @sched_refines_ideal_lemma. Qed.
Print Assumptions sched_refines_ideal.

(* The ideal scheduler is the property's sentence: message j goes out on a call
   exactly when the timestamp differs from the previous call's, it has a
   period, and at least P_j elapsed since its previous transmission. *)
Theorem sched_send_iff :
  forall (F : Type) ps S T (pay : nat -> F) j f,
    length (last_send S) = length ps ->
    In (j, f) (snd (ideal_step ps S (T, pay))) <->
    (j < length ps)%nat /\ f = pay j /\ T <> last_call S /\ nth j ps 0 <> -1 /\
    nth j ps 0 <= T - nth j (last_send S) 0.
Proof. exact @ideal_send_iff. Qed.
Print Assumptions sched_send_iff.

(* last_send_j is the time of j's previous transmission (or unchanged) *)
Theorem sched_last_send_is_previous_transmission :
  forall (F : Type) ps S T (pay : nat -> F) j,
    length (last_send S) = length ps -> (j < length ps)%nat ->
    nth j (last_send (fst (ideal_step ps S (T, pay)))) 0 =
    if (negb (T =? last_call S)) && ideal_due (nth j ps 0) T (nth j (last_send S) 0)
    then T else nth j (last_send S) 0.
Proof. exact @ideal_step_last_send. Qed.
Print Assumptions sched_last_send_is_previous_transmission.

Theorem sched_min_distance :
  forall (F : Type) ps j (h : list (Z * (nat -> F))) S,
    length (last_send S) = length ps -> (j < length ps)%nat ->
    forall k T pay f S0,
      nth_error h k = Some (T, pay) ->
      nth_error (S :: ideal_states ps S h) k = Some S0 ->
      In (j, f) (snd (ideal_step ps S0 (T, pay))) ->
      nth j ps 0 <= T - nth j (last_send S0) 0.
Proof. exact @ideal_min_distance. Qed.
Print Assumptions sched_min_distance.

Theorem sched_no_period_never :
  forall (F : Type) ps S T (pay : nat -> F) j f,
    length (last_send S) = length ps -> nth j ps 0 = -1 ->
    ~ In (j, f) (snd (ideal_step ps S (T, pay))).
Proof. exact @ideal_no_period_never. Qed.
Print Assumptions sched_no_period_never.

Theorem sched_frame_is_current_value :
  forall (F : Type) ps S T (pay : nat -> F) j f,
    In (j, f) (snd (ideal_step ps S (T, pay))) -> f = pay j.
Proof. exact @ideal_frame_is_current. Qed.
Print Assumptions sched_frame_is_current_value.

(* Non-vacuity: a 3-message device and a history that wraps around 2^32. *)
(* ---- which messages, with which periods, a device's scheduler is generated for: initialize_can_data and map_messages_to_devices of
   can_c_writer.py are translated from the source on every run (gen/PyCanC.v).  For every schema, every list of bindings and every
   device name: the periods of the messages grouped under that device are the periods of the CAN bindings that name it (no device:
   "global"), in declaration order, -1 for a binding without a period ---- *)
Theorem source_scheduler_periods_are_the_bindings :
  forall (S : Type) (create : list Packed.piece -> BufferLib.pyres (S * BinNums.Z)) sc ims d msgs devs,
    DbcSrcProofs.dres_of (PyCanC.py_initialize_can_data create sc ims) = Some (msgs, devs) ->
    List.map CWriterLib.c_period (CWriterProofs.get_list d (PyCanC.py_map_messages_to_devices msgs))
    = List.map (fun im => CWriterLib.impl_int_default im "period"%string (-1)%Z)
        (List.filter (fun im => andb (CWriterProofs.is_can im) (String.eqb d (CWriterLib.impl_str_default im "device"%string "global"%string))) ims).
Proof. exact (@CWriterProofs.scheduler_periods_are_the_bindings). Qed.
Print Assumptions source_scheduler_periods_are_the_bindings.

Example c19_nonvacuous :
  let ps := [15; 20; -1] in
  let h : list (Z * (nat -> Z)) :=
    map (fun T => (T, fun i => Z.of_nat i + T)) [0; 15; 15; 20; 4294967290; 4294967301] in
  periods_ok 20 ps /\ gaps_ok 20 0 h /\
  map (map fst) (sched_run ps (sched_init 3) (wrap_hist h))
  = [[]; [0%nat]; []; [1%nat]; [0%nat; 1%nat]; []].
Proof.
  cbv zeta. split; [|split].
  - repeat (apply Forall_cons; [(left; reflexivity) || (right; split; discriminate)|]). apply Forall_nil.
  - Transparent W. cbn. unfold W. repeat split; try discriminate; reflexivity.
  - vm_compute. reflexivity.
Qed.

(* ---- the generated C itself: harness/c2coq.py translates clang's AST of every generated can_send_<dev>_msgs_scheduled to
   Gallina and Coq checks, per device, that the translation is convertible with shape_step <periods> (the statement sequence
   the template unrolls to); that sequence is the model step for every period list ---- *)
Theorem generated_statement_sequence_is_the_model :
  forall ps s t, length (last_send s) = length ps -> shape_step ps s t = model_step ps s t.
Proof. exact shape_is_model. Qed.
Print Assumptions generated_statement_sequence_is_the_model.
