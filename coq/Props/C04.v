(* C04 — the packed CAN layout tiles the message.  Statements only. *)
From Coq Require Import String ZArith List Bool.
From FcpV Require Import Schema.Types Layout.Packed Layout.PackedProofs.
From FcpV Require Import Py.BufferLib Layout.EncoderLib Layout.EncoderProofs Layout.EncoderFailProofs.
From FcpV Require Import Verifier.Checks Py.BufferLib Py.DispatchLib Verifier.ChecksLib Layout.Packed Layout.EncoderLib Specs.SpecsLib Specs.SpecsProofs.
Import ListNotations.
Open Scope Z_scope.

(* starts at bit 0, every piece starts where the previous one ends (no gaps,
   no overlaps), ends at the sum of the widths; every piece carries the signal
   options of the signal block named like its own (last) field name, its byte
   order is the one declared there (default little), and its name is its path *)
Theorem layout_tiles :
  forall unroll sc e im ps,
    snd (generate unroll sc e im) = Some ps ->
    contiguous 0 ps (total_bits ps) /\ Forall (piece_ok im) ps.
Proof. exact layout_tiles_lemma. Qed.
Print Assumptions layout_tiles.

(* hence every piece lies inside [0, total) when widths are non-negative *)
Theorem layout_inside :
  forall unroll sc e im ps,
    snd (generate unroll sc e im) = Some ps -> Forall (fun p => 0 <= plen p) ps ->
    Forall (fun p => 0 <= pstart p /\ pstart p + plen p <= total_bits ps) ps.
Proof.
  intros unroll sc e im ps H Hn. destruct (layout_tiles_lemma _ _ _ _ _ H) as [Hc _].
  exact (contiguous_bounds _ _ _ Hn Hc).
Qed.
Print Assumptions layout_inside.

(* the layout of a binding does not depend on what the encoder laid out before *)
Theorem generate_history_independent :
  forall unroll sc ims e,
    generate_seq unroll sc e ims = map (fun im => snd (generate unroll sc encoder_init im)) ims.
Proof. exact generate_seq_is_pointwise. Qed.
Print Assumptions generate_history_independent.

(* widths: the full statement says every leaf is as wide as its wire width ... *)
Definition wire_width (es : list senum) (t : sty) : option Z :=
  match t with
  | SEnumRef s => option_map (fun e => Z.of_nat (packed_size (enum_max e))) (find_enum es s)
  | _ => type_length es t
  end.
Definition layout_widths_statement : Prop :=
  forall unroll sc e im ps, snd (generate unroll sc e im) = Some ps ->
    Forall (fun p => Some (plen p) = wire_width (enums sc) (pty p)) ps.

(* ... which the code refutes for enums whose packed size is not a power of
   two (known finding C04/enum-width: 3 bits are laid out as 4) *)
Definition c04_witness : schema :=
  {| structs := [ {| sname := "S"; sfields := [ {| fname := "e"; fid := 0; fty := SEnumRef "E"; funit := None |} ] |} ];
     enums := [ {| ename := "E"; evals := [("A"%string, 0); ("B"%string, 4)] |} ] |}.
Theorem layout_widths_refuted_enum : ~ layout_widths_statement.
Proof.
  intros H.
  specialize (H false c04_witness encoder_init
               {| iname := "S"; iprotocol := "default"; itype := "S"; ifields := []; isignals := [] |}
               _ eq_refl).
  inversion H as [|? ? Hp _]; subst. vm_compute in Hp. discriminate Hp.
Qed.
Print Assumptions layout_widths_refuted_enum.

Example c04_nonvacuous :
  let sc := {| structs :=
       [ {| sname := "In"; sfields := [ {| fname := "x"; fid := 1; fty := SI 5; funit := None |};
                                        {| fname := "y"; fid := 0; fty := SF32; funit := Some "V"%string |} ] |};
         {| sname := "Out"; sfields :=
              [ {| fname := "a"; fid := 3; fty := SU 3; funit := None |};
                {| fname := "c"; fid := 2; fty := SArr (SStructRef "In") 2; funit := None |};
                {| fname := "b"; fid := 0; fty := SArr (SU 7) 2; funit := None |} ] |} ];
     enums := [] |} in
  let im := {| iname := "Out"; iprotocol := "can"; itype := "Out"; ifields := [];
               isignals := [ {| sbname := "x"; sbfields := [("endianess"%string, XStr "big")] |} ] |} in
  match snd (generate true sc encoder_init im) with
  | Some ps => map (fun p => (pname p, pstart p, plen p, pend p)) ps =
      [("b_0", 0, 7, "little"); ("b_1", 7, 7, "little");
       ("c_0::y", 14, 32, "little"); ("c_0::x", 46, 5, "big");
       ("c_1::y", 51, 32, "little"); ("c_1::x", 83, 5, "big"); ("a", 88, 3, "little")]%string
  | None => False
  end.
Proof. vm_compute. reflexivity. Qed.

(* ---- encoding.py itself: class PackedEncoder is translated from the source on every run (harness/py2coq_enc.py ->
   gen/PyEncoder.v); whenever the model lays a binding out, the translated generate() - called on an encoder object in any
   earlier state - returns exactly the images of those pieces, which tile the message ---- *)
Theorem source_layout_tiles :
  forall sc unroll im ps (e0 : penc) fuel l,
    NoDup (map sname (structs sc)) -> sig_ok im -> pe_fcp e0 = sc -> pe_unroll e0 = unroll ->
    lresolve unroll sc (itype im) = Some l -> (ldepth l <= fuel)%nat ->
    snd (generate unroll sc encoder_init im) = Some ps ->
    (exists e1, PyEncoder.py_generate fuel e0 im = POk (e1, map pv ps)) /\ contiguous 0 ps (total_bits ps) /\ Forall (piece_ok im) ps.
Proof. exact translated_layout_tiles. Qed.
Print Assumptions source_layout_tiles.

Theorem source_generate_is_model :
  forall sc unroll (e : encoder) im (e' : encoder) ps (e0 : penc) fuel l,
    NoDup (map sname (structs sc)) -> sig_ok im -> pe_fcp e0 = sc -> pe_unroll e0 = unroll ->
    lresolve unroll sc (itype im) = Some l -> (ldepth l <= fuel)%nat ->
    generate unroll sc e im = (e', Some ps) ->
    PyEncoder.py_generate fuel e0 im = POk (mkenc sc unroll ps (enc_bitstart e'), map pv ps).
Proof. exact translated_generate_is_model. Qed.
Print Assumptions source_generate_is_model.

Theorem source_generate_history_independent :
  forall sc unroll im ps (e1 e2 : penc) fuel l,
    NoDup (map sname (structs sc)) -> sig_ok im -> pe_fcp e1 = sc -> pe_unroll e1 = unroll -> pe_fcp e2 = sc -> pe_unroll e2 = unroll ->
    lresolve unroll sc (itype im) = Some l -> (ldepth l <= fuel)%nat ->
    snd (generate unroll sc encoder_init im) = Some ps ->
    PyEncoder.py_generate fuel e1 im = PyEncoder.py_generate fuel e2 im.
Proof. exact translated_generate_history_independent. Qed.
Print Assumptions source_generate_history_independent.

Example c04_source_nonvacuous :
  let sc := {| structs :=
       [ {| sname := "In"; sfields := [ {| fname := "x"; fid := 1; fty := SI 5; funit := None |};
                                        {| fname := "y"; fid := 0; fty := SF32; funit := Some "V"%string |} ] |};
         {| sname := "Out"; sfields :=
              [ {| fname := "a"; fid := 3; fty := SU 3; funit := None |};
                {| fname := "c"; fid := 2; fty := SArr (SStructRef "In") 2; funit := None |};
                {| fname := "b"; fid := 0; fty := SArr (SU 7) 2; funit := None |} ] |} ];
     enums := [] |} in
  let im := {| iname := "Out"; iprotocol := "can"; itype := "Out"; ifields := [];
               isignals := [ {| sbname := "x"; sbfields := [("endianess"%string, XStr "big")] |} ] |} in
  NoDup (map sname (structs sc)) /\ sig_ok im /\
  match lresolve true sc (itype im), snd (generate true sc encoder_init im), PyEncoder.py_generate 12 (penc_init sc true) im with
  | Some l, Some ps, POk (_, vs) => (ldepth l <= 12)%nat /\ vs = map pv ps /\ length vs = 7%nat
  | _, _, _ => False
  end.
Proof.
  cbv zeta. split; [repeat constructor; cbn; intuition discriminate|]. split.
  - intros name. unfold end_ok, sig_fields. cbn [isignals find sbname]. destruct (String.eqb "x" name); cbn; exact I.
  - vm_compute. repeat split; repeat constructor.
Qed.

(* both directions: on every binding whose struct resolves in the model, the translated generate() returns the images of the
   model's pieces when the model lays the binding out, and raises when the model does not *)
Theorem source_generate_agrees_with_model :
  forall sc unroll (e : encoder) im (e0 : penc) fuel l,
    NoDup (map sname (structs sc)) -> sig_ok im -> pe_fcp e0 = sc -> pe_unroll e0 = unroll ->
    lresolve unroll sc (itype im) = Some l -> (ldepth l <= fuel)%nat ->
    match snd (generate unroll sc e im) with
    | Some ps => exists e1, PyEncoder.py_generate fuel e0 im = POk (e1, map pv ps)
    | None => exists ex, PyEncoder.py_generate fuel e0 im = PRaise ex
    end.
Proof. exact translated_generate_agrees. Qed.
Print Assumptions source_generate_agrees_with_model.

(* ---- what the translated PackedEncoder calls outside its own class (FcpV2.get_type, Impl.get_signal, Enum.get_packed_size,
   PackedEncoderContext.with_unroll_arrays: translated on every run, gen/PySpecs.v) is what its run-time library assumes ---- *)
Theorem source_encoder_lookups_are_the_library :
  (forall t ty, is_StructType ty || is_EnumType ty = true ->
     match py_get_type (schema_of t) ty, PySpecs.py_FcpV2_get_type t ty with
     | POk (PTStruct s), POk (Some (TNStruct s')) => s = s'
     | POk (PTEnum e), POk (Some (TNEnum e')) => e = e'
     | PRaise _, POk None => True
     | _, _ => False
     end) /\
  (forall im name, PySpecs.py_Impl_get_signal im name = POk (find (fun sb => String.eqb (sbname sb) name) (isignals im)) /\
     sig_fields im name = match find (fun sb => String.eqb (sbname sb) name) (isignals im) with Some sb => sbfields sb | None => [] end) /\
  (forall e, Forall (fun v => 0 <= v) (map snd (evals e)) -> PySpecs.py_Enum_get_packed_size e = POk (enum_packed_size e)) /\
  (forall c b, PySpecs.py_PackedEncoderContext_with_unroll_arrays c b = POk (c, {| unroll_arrays := b |})).
Proof.
  repeat split; intros.
  - now apply get_type_is_library. - apply get_signal_is_library. - now apply get_packed_size_is_model.
Qed.
Print Assumptions source_encoder_lookups_are_the_library.
