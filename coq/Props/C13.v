(* C13 — the schema loaded at run time from reflection behaves like the compiled one.
   Statements only.  The full statement is refuted by the code (known findings);
   what holds is proved next to the refutations. *)
From Coq Require Import String ZArith List Bool.
From FcpV Require Import Base.Bits Schema.Types Wire.Wire Cpp.CppStatic Cpp.CppDynamic Cpp.CppDynamicProofs.
From FcpV Require Import Reflect.Reflection Reflect.ReflectionProofs.
Import ListNotations.
Open Scope Z_scope.

(* the full statement: same bytes out, same value in, for every schema and value *)
Definition dyn_equals_static_statement : Prop :=
  forall sc name t v bytes, resolve sc name = Some t -> has_type t v = true -> cpp_ok t v = true ->
    dyn_encode sc name v = cpp_encode sc name v /\
    (wire_bytes t v = Some bytes -> dyn_decode sc name bytes = cpp_decode sc name bytes).

(* loading: the run-time schema is rebuilt from the reflection record, which
   determines the schema tree exactly (C12) *)
Theorem dyn_load_inverts_reflection : forall t, unreflect (reflection t) = Some t.
Proof. exact reflection_faithful_lemma. Qed.
Print Assumptions dyn_load_inverts_reflection.

(* encode agrees whenever every scalar occupies whole bytes, the struct is
   declared in id order and no Optional holds an empty container *)
Theorem dyn_encode_equals_static_partial :
  forall sc name t v, resolve sc name = Some t -> resolve_decl sc name = Some t ->
    aligned8 t = true -> no_empty_some t v = true -> cpp_ok t v = true ->
    dyn_encode sc name v = cpp_encode sc name v.
Proof. exact dyn_encode_equals_static_lemma. Qed.
Print Assumptions dyn_encode_equals_static_partial.

(* decode of canonical bytes agrees (and returns the value) whenever the struct
   is declared in id order and no signed field is negative - at any alignment *)
Theorem dyn_decode_equals_static_partial :
  forall sc name t v bytes, resolve sc name = Some t -> resolve_decl sc name = Some t ->
    has_type_gen nonneg_okS t v = true -> wire_bytes t v = Some bytes ->
    dyn_decode sc name bytes = Some (Ok v) /\ cpp_decode sc name bytes = Some (Ok v).
Proof. exact dyn_decode_equals_static_lemma. Qed.
Print Assumptions dyn_decode_equals_static_partial.

(* ---- refutations of the full statement (known findings) ---- *)
Definition mkf n i t := {| fname := n; fid := i; fty := t; funit := None |}.
Definition sc_sub : schema := {| structs := [ {| sname := "S"; sfields := [mkf "a" 0 (SU 4); mkf "b" 1 SF32] |} ]; enums := [] |}.

(* sub-byte field: {a: u4, b: f32} is 5 bytes statically, 5 differently laid out bytes dynamically *)
Theorem c13_refuted_subbyte :
  dyn_encode sc_sub "S" (VStruct [("a"%string, VInt 13); ("b"%string, VBits 1069547520)]) <>
  cpp_encode sc_sub "S" (VStruct [("a"%string, VInt 13); ("b"%string, VBits 1069547520)]).
Proof. vm_compute. discriminate. Qed.
Print Assumptions c13_refuted_subbyte.

(* negative signed value: -7 on an i8 is decoded as 2^64 - 7 *)
Theorem c13_refuted_negative_decode :
  dyn_decode {| structs := [ {| sname := "S"; sfields := [mkf "a" 0 (SI 8)] |} ]; enums := [] |} "S" [249]
  = Some (Ok (VStruct [("a"%string, VInt 18446744073709551609)])).
Proof. vm_compute. reflexivity. Qed.
Print Assumptions c13_refuted_negative_decode.

(* declaration order: {b @1: u8, a @0: u16} *)
Theorem c13_refuted_declaration_order :
  let sc := {| structs := [ {| sname := "S"; sfields := [mkf "b" 1 (SU 8); mkf "a" 0 (SU 16)] |} ]; enums := [] |} in
  dyn_encode sc "S" (VStruct [("b"%string, VInt 1); ("a"%string, VInt 2)]) = Some [1; 2; 0] /\
  cpp_encode sc "S" (VStruct [("a"%string, VInt 2); ("b"%string, VInt 1)]) = Some [2; 0; 1].
Proof. vm_compute. split; reflexivity. Qed.
Print Assumptions c13_refuted_declaration_order.

Theorem dyn_equals_static_refuted : ~ dyn_equals_static_statement.
Proof.
  intros H.
  destruct (H sc_sub "S"%string (RStruct [("a"%string, RU 4); ("b"%string, RF32)])
              (VStruct [("a"%string, VInt 13); ("b"%string, VBits 1069547520)]) [] eq_refl eq_refl eq_refl) as [E _].
  exact (c13_refuted_subbyte E).
Qed.
Print Assumptions dyn_equals_static_refuted.

Example c13_nonvacuous :
  let sc := {| structs := [ {| sname := "S"; sfields := [mkf "a" 0 (SU 8); mkf "b" 1 (SI 16); mkf "c" 2 SF32; mkf "d" 3 (SDyn (SU 24))] |} ]; enums := [] |} in
  let v := VStruct [("a"%string, VInt 1); ("b"%string, VInt 7); ("c"%string, VBits 1069547520); ("d"%string, VList [VInt 5; VInt 6])] in
  match resolve sc "S" with
  | Some t => resolve_decl sc "S" = Some t /\ aligned8 t = true /\ has_type_gen nonneg_okS t v = true /\
              dyn_encode sc "S" v = cpp_encode sc "S" v /\ dyn_encode sc "S" v <> None
  | None => False
  end.
Proof. vm_compute. repeat split; try reflexivity. discriminate. Qed.
