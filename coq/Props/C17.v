(* C17 — generated artifacts are a deterministic function of the schema.  Statements only.
   Partial by nature: no Gallina function produces the verbatim template text;
   what is proved concerns the sources of non-determinism the generators contain. *)
From Coq Require Import String ZArith List Bool Permutation.
From FcpV Require Import Schema.Types Layout.Packed Layout.PackedProofs Gen.Determinism Gen.DeterminismProofs.
Import ListNotations.
Open Scope string_scope.

(* hash-seed dependence: get_protocols() returns some permutation of the
   distinct protocol names; the path -> contents map of the C++ generator's
   files is the same for every such permutation *)
Theorem file_set_perm_invariant :
  forall (C : Type) (content : string -> C) ps ps' services, Permutation ps ps' ->
    forall path, lookup path (files_of content (cpp_file_names ps services)) =
                 lookup path (files_of content (cpp_file_names ps' services)).
Proof. intros. now apply file_set_perm_invariant_lemma. Qed.
Print Assumptions file_set_perm_invariant.

(* what the process generated before: the packed encoder shared by the DBC and
   C writers lays a binding out independently of its history (C04) *)
Theorem generate_history_independent :
  forall unroll sc ims e,
    generate_seq unroll sc e ims = map (fun im => snd (generate unroll sc encoder_init im)) ims.
Proof. exact generate_seq_is_pointwise. Qed.
Print Assumptions generate_history_independent.

(* the C++ generator extends the schema with RPC types on a copy (as repaired):
   every call of any history on the same schema object returns the same artefacts *)
Theorem generator_calls_are_history_independent :
  forall (T F : Type) (rpc_extend : T -> T) (render : T -> F) n t,
    gen_history (gen_step rpc_extend render) n t = repeat (render (rpc_extend t)) n.
Proof. intros. apply gen_history_constant. Qed.
Print Assumptions generator_calls_are_history_independent.

(* the defect that was repaired, for the record: mutating the argument makes the second call differ *)
Theorem mutating_generator_refuted :
  forall (T F : Type) (rpc_extend : T -> T) (render : T -> F) t,
    render (rpc_extend (rpc_extend t)) <> render (rpc_extend t) ->
    exists a b, gen_history (gen_step_mutating rpc_extend render) 2 t = [a; b] /\ a <> b.
Proof. intros. now apply gen_history_mutating_differs. Qed.
Print Assumptions mutating_generator_refuted.

Example c17_nonvacuous :
  cpp_file_names ["can"; "default"] ["MyService"] =
  (fixed_files ++ ["fcp_can.h"; "fcp_default.h"; "my_service_server.h"; "my_service_client.h"])%list /\
  Permutation ["can"; "default"] ["default"; "can"].
Proof. split; [reflexivity|apply perm_swap]. Qed.
