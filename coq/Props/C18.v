(* C18 — the C++ CAN frame wrapper.  Statements only. *)
From Coq Require Import String ZArith List Bool.
From FcpV Require Import Schema.Types Reflect.Reflection Cpp.CppCan Cpp.CppCanProofs.
Import ListNotations.
Open Scope Z_scope.

(* The full statement asks the round trip for every binding that declares a bus
   of 1-4 characters.  It holds for 4-character buses ... *)
Theorem can_roundtrip_partial :
  forall (V : Type) (enc : string -> V -> option (list Z)) (dec : string -> list Z -> option V) bs b s v payload,
    In b bs -> cb_bus b = Some s -> length (codes s) = 4%nat ->
    (forall b', In b' bs -> cb_name b' = cb_name b -> b' = b) ->
    (forall b', In b' bs -> cb_id b' = cb_id b -> bus_of b' = bus_of b -> b' = b) ->
    enc (cb_name b) v = Some payload -> dec (cb_name b) (pad_data payload) = Some v ->
    exists f, static_encode enc bs (cb_name b) v = Some f /\
              fr_sid f = cb_id b /\ fr_bus f = codes s /\ fr_dlc f = Z.of_nat (length payload) /\ fr_data f = pad_data payload /\
              static_decode dec bs f = Some (cb_name b, v).
Proof. intros. eapply can_roundtrip_lemma; eauto. exact codes_inj. Qed.
Print Assumptions can_roundtrip_partial.

(* ... a frame whose (id, bus) matches no binding is reported as unknown ... *)
Theorem can_unknown_frame :
  forall (V : Type) (dec : string -> list Z -> option V) bs f,
    (forall b, In b bs -> fr_sid f <> cb_id b \/ fr_bus f <> codes (bus_of b)) -> static_decode dec bs f = None.
Proof. intros. now apply can_unknown_frame_lemma. Qed.
Print Assumptions can_unknown_frame.

(* ... and the reflection-loaded schema answers like the static one when every binding declares a bus *)
Theorem can_static_equals_dynamic :
  forall (V : Type) (enc : string -> V -> option (list Z)) (dec : string -> list Z -> option V) bs,
    Forall (fun b => cb_bus b <> None) bs ->
    (forall name v, dynamic_encode enc bs name v = Some (static_encode enc bs name v)) /\
    (forall f, dynamic_decode dec bs f = static_decode dec bs f).
Proof. intros. now apply can_static_equals_dynamic_lemma. Qed.
Print Assumptions can_static_equals_dynamic.

(* refutations (known findings): a bus shorter than four characters is sent but never recognised ... *)
Definition idc (n : string) (v : Z) : option (list Z) := Some [v].
Definition idd (n : string) (bs : list Z) : option Z := match bs with x :: _ => Some x | [] => None end.
Theorem c18_refuted_short_bus :
  let bs := [ {| cb_name := "S"; cb_id := 5; cb_bus := Some "ab"%string |} ] in
  match static_encode idc bs "S" 7 with
  | Some f => fr_bus f = [97; 98; 0; 0] /\ static_decode idd bs f = None
  | None => False
  end.
Proof. vm_compute. split; reflexivity. Qed.
Print Assumptions c18_refuted_short_bus.

(* ... and a binding without bus is sent on bus "None" statically and throws dynamically *)
Theorem c18_refuted_no_bus :
  let bs := [ {| cb_name := "S"; cb_id := 5; cb_bus := None |} ] in
  option_map fr_bus (static_encode idc bs "S" 7) = Some [78; 111; 110; 101] /\ dynamic_encode idc bs "S" 7 = None.
Proof. vm_compute. split; reflexivity. Qed.
Print Assumptions c18_refuted_no_bus.

Example c18_nonvacuous :
  let bs := [ {| cb_name := "A"; cb_id := 5; cb_bus := Some "can1"%string |}; {| cb_name := "B"; cb_id := 5; cb_bus := Some "can2"%string |} ] in
  match static_encode idc bs "B" 9 with
  | Some f => fr_sid f = 5 /\ fr_dlc f = 1 /\ static_decode idd bs f = Some ("B"%string, 9)
  | None => False
  end.
Proof. vm_compute. repeat split; reflexivity. Qed.
