(* C15 — field ids, not declaration order, fix the wire order.  Statements only. *)
From Coq Require Import String ZArith List Bool Permutation.
From FcpV Require Import Base.Bits Schema.Types Base.SortPerm Schema.PermProofs Layout.Packed Wire.Wire Py.PySerde.
From FcpV Require Import Py.BufferLib Py.BufferProofs Py.DispatchLib Py.DispatchDefs Py.DispatchProofs Py.DispatchPerm.
From FcpV Require Import Layout.PackedProofs Layout.EncoderLib Layout.EncoderProofs Layout.EncoderPerm.
From FcpV Require Import Verifier.Checks Py.BufferLib Py.DispatchLib Verifier.ChecksLib Layout.Packed Layout.EncoderLib Specs.SpecsLib Specs.SpecsProofs.
Import ListNotations.
Open Scope Z_scope.

(* sc' declares, struct by struct, the same fields as sc in another order
   (any permutation), ids pairwise distinct inside each struct *)

(* the closed type tree every back end walks is the same *)
Theorem resolve_perm_invariant :
  forall sc sc' name, schema_perm sc sc' -> resolve sc name = resolve sc' name.
Proof. exact resolve_perm. Qed.
Print Assumptions resolve_perm_invariant.

(* Python codec: same bytes out, same value in *)
Theorem py_perm_invariant :
  forall sc sc' name v bytes, schema_perm sc sc' ->
    py_encode sc name v = py_encode sc' name v /\ py_decode sc name bytes = py_decode sc' name bytes.
Proof. intros. split; [now apply py_encode_perm|now apply py_decode_perm]. Qed.
Print Assumptions py_perm_invariant.

(* packed CAN layout (and therefore everything derived from it: DBC, C) *)
Theorem layout_perm_invariant :
  forall unroll sc sc' e im, schema_perm sc sc' ->
    snd (generate unroll sc e im) = snd (generate unroll sc' e im).
Proof. exact generate_perm. Qed.
Print Assumptions layout_perm_invariant.

(* the sorting fact behind all of them *)
Theorem sorted_fields_perm_invariant :
  forall (l l' : list sfield), Permutation l l' -> NoDup (map fid l) ->
    sort_by fid l = sort_by fid l'.
Proof. intros l l'. apply sort_by_perm. Qed.
Print Assumptions sorted_fields_perm_invariant.

Example c15_nonvacuous :
  let f n i t := {| fname := n; fid := i; fty := t; funit := None |} in
  let s1 := {| sname := "S"; sfields := [f "b" 1 (SU 8); f "a" 0 (SU 16); f "c" 7 SStr]%string |} in
  let s2 := {| sname := "S"; sfields := [f "c" 7 SStr; f "b" 1 (SU 8); f "a" 0 (SU 16)]%string |} in
  schema_perm {| structs := [s1]; enums := [] |} {| structs := [s2]; enums := [] |}.
Proof.
  cbv zeta. split; [|reflexivity]. constructor; [|constructor].
  split; [reflexivity|]. split.
  - cbn. eapply perm_trans; [apply perm_skip, perm_swap|apply perm_swap].
  - cbn. repeat constructor; cbn; intuition discriminate.
Qed.

(* ---- serde.py itself (translated from the source on every run: gen/PyBuffer.v, gen/PyLeaf.v, gen/PyDispatch.v): the translated
   encode() returns the same bytes - the canonical ones - and the translated decode() the same result for both declarations ---- *)
Theorem source_encode_ignores_declaration_order :
  forall sc sc' name t v bs fuel,
    schema_perm sc sc' -> NoDup (map sname (structs sc)) -> NoDup (map sname (structs sc')) ->
    resolve sc name = Some t -> uniq t -> repr t v = true -> (depth t <= S fuel)%nat -> wire t v = Some bs ->
    PyDispatch.py_encode fuel sc name (embed t v) = POk (bytes_of_bits bs) /\
    PyDispatch.py_encode fuel sc' name (embed t v) = POk (bytes_of_bits bs).
Proof. exact translated_encode_perm. Qed.
Print Assumptions source_encode_ignores_declaration_order.

Theorem source_decode_ignores_declaration_order :
  forall sc sc' name t data fuel,
    schema_perm sc sc' -> NoDup (map sname (structs sc)) -> NoDup (map sname (structs sc')) ->
    resolve sc name = Some t -> uniq t -> (depth t <= S fuel)%nat -> Forall byte_ok data ->
    PyDispatch.py_decode fuel sc name data = PyDispatch.py_decode fuel sc' name data.
Proof. exact translated_decode_perm. Qed.
Print Assumptions source_decode_ignores_declaration_order.

(* ---- encoding.py itself (class PackedEncoder translated from the source on every run: gen/PyEncoder.v): the translated
   generate() returns the same Values for both declarations ---- *)
Theorem source_layout_ignores_declaration_order :
  forall sc sc' unroll im ps (e0 e0' : penc) fuel l,
    schema_perm sc sc' -> NoDup (map sname (structs sc)) -> NoDup (map sname (structs sc')) -> sig_ok im ->
    pe_fcp e0 = sc -> pe_unroll e0 = unroll -> pe_fcp e0' = sc' -> pe_unroll e0' = unroll ->
    lresolve unroll sc (itype im) = Some l -> (ldepth l <= fuel)%nat ->
    snd (generate unroll sc encoder_init im) = Some ps ->
    (exists a, PyEncoder.py_generate fuel e0 im = POk (a, map pv ps)) /\ (exists b, PyEncoder.py_generate fuel e0' im = POk (b, map pv ps)).
Proof. exact translated_generate_perm. Qed.
Print Assumptions source_layout_ignores_declaration_order.

(* ---- what the translated PackedEncoder calls outside its own class (FcpV2.get_type, Impl.get_signal, Enum.get_packed_size,
   PackedEncoderContext.with_unroll_arrays: translated on every run, gen/PySpecs.v) is what its run-time library assumes ---- *)
Theorem source_encoder_lookups_are_the_library :
  (forall t ty, is_StructType ty || is_EnumType ty = true ->
     match py_get_type (schema_of t) ty, PySpecs.py_FcpV2_get_type t ty with
     | POk (PTStruct s), POk (Some (TNStruct s')) => s = s'
     | POk (PTEnum e), POk (Some (TNEnum e')) => e = e'
     | PRaise _, POk None => True
     | _, _ => False
     end) /\
  (forall im name, PySpecs.py_Impl_get_signal im name = POk (find (fun sb => String.eqb (sbname sb) name) (isignals im)) /\
     sig_fields im name = match find (fun sb => String.eqb (sbname sb) name) (isignals im) with Some sb => sbfields sb | None => [] end) /\
  (forall e, Forall (fun v => 0 <= v) (map snd (evals e)) -> PySpecs.py_Enum_get_packed_size e = POk (enum_packed_size e)) /\
  (forall c b, PySpecs.py_PackedEncoderContext_with_unroll_arrays c b = POk (c, {| unroll_arrays := b |})).
Proof.
  repeat split; intros.
  - now apply get_type_is_library. - apply get_signal_is_library. - now apply get_packed_size_is_model.
Qed.
Print Assumptions source_encoder_lookups_are_the_library.
