(* C06 — the generated C CAN code packs and unpacks frames per the packed layout.
   Statements only.  The advertised subset is only partly met (known findings);
   what holds is proved, the rest is refuted by evaluated witnesses. *)
From Coq Require Import String ZArith List Bool Lia.
From FcpV Require Import Base.Bits Schema.Types Layout.Packed Layout.PackedProofs Dbc.DbcProofs CanC.CModel CanC.CProofs CanC.CBigProofs.
From FcpV Require CanC.CWriterLib CanC.CWriterProofs gen.PyCanC.
Import ListNotations.
Open Scope Z_scope.

(* For every message whose signals are supported (8/16/32/64-bit integers,
   enums, f64, f32 at bit 0), tile at most 64 bits from bit 0, and every
   in-range value: the frame word is the layout packing of the value and
   can_decode_msg returns the value *)
Theorem c_roundtrip_partial :
  forall fid ps vs e, contiguous 0 ps e -> e <= 64 -> Forall2 sig_ok ps vs ->
    cf_word (c_encode_msg fid ps vs) = Z_of_bits (pack ps vs) /\
    c_decode_msg ps (c_encode_msg fid ps vs) = vs.
Proof. exact c_roundtrip_lemma. Qed.
Print Assumptions c_roundtrip_partial.

(* the frame carries the binding's id and a DLC of ceil(bits / 8) *)
Theorem c_id_dlc :
  forall fid ps vs e, 0 <= fid < 2048 -> contiguous 0 ps e -> Forall (fun p => 0 <= plen p) ps -> ps <> [] -> e <= 64 ->
    cf_id (c_encode_msg fid ps vs) = fid /\ cf_dlc (c_encode_msg fid ps vs) = (e + 7) / 8.
Proof. exact c_id_dlc_lemma. Qed.
Print Assumptions c_id_dlc.

(* bitfield_sign_conv is two's complement for every length 1..64 *)
Theorem c_sign_conv_is_twos_complement :
  forall bf len, 1 <= len <= 64 -> 0 <= bf < 2 ^ len ->
    sign_conv bf len = if 2 ^ (len - 1) <=? bf then bf - 2 ^ len else bf.
Proof. exact sign_conv_spec. Qed.
Print Assumptions c_sign_conv_is_twos_complement.

(* ---- refutations of the advertised subset (known findings) ---- *)
Definition mkp n t s l := {| ppath := [n]; pname := n; pty := t; pstart := s; plen := l; pend := "little"%string; punit := None; pext := [] |}.

(* an unsigned width outside 8/16/32/64 is emitted as an unknown C type; a signed one makes the generator raise *)
Theorem c06_refuted_odd_widths :
  kind_of (mkp "a"%string (SU 4) 0 4) = KUnknownType /\ kind_of (mkp "a"%string (SI 12) 0 12) = KKeyError.
Proof. split; reflexivity. Qed.
Print Assumptions c06_refuted_odd_widths.

(* an enum whose NAME begins with the letter i: is_signed() looks at the first letter of the type name, the enum counts as signed and
   the generator raises KeyError('i') (finding c-enum-name-i); any other enum name is fine *)
Theorem c06_refuted_enum_name_i :
  kind_of (mkp "s"%string (SEnumRef "ignition") 0 1) = KKeyError /\ kind_of (mkp "s"%string (SEnumRef "Mode") 0 1) = KU 8.
Proof. split; reflexivity. Qed.
Print Assumptions c06_refuted_enum_name_i.

(* an f32 behind a u8: 1.5f is shifted inside 32 bits; the frame word is not the layout packing and the signal decodes to another float *)
Theorem c06_refuted_float_offset :
  let ps := [mkp "a"%string (SU 8) 0 8; mkp "f"%string SF32 8 32] in
  let vs := [1; 1069547520] in
  cf_word (c_encode_msg 10 ps vs) <> Z_of_bits (pack ps vs) /\
  c_decode_msg ps (c_encode_msg 10 ps vs) <> vs.
Proof. vm_compute. split; discriminate. Qed.
Print Assumptions c06_refuted_float_offset.

(* ---- big-endian signals (`endianness: "big"`), as the runtime of can_signal_parser.c treats them ---- *)
(* a message whose only signal is a big-endian unsigned integer of width 8/16/32/64 at bit 0: the data bytes of the frame (the low c
   bits of the word: the bytes within the DLC) are the value's bytes in the opposite order, and the frame decodes to the value *)
Theorem c_big_single_unsigned :
  forall fid p v c, is_big p = true -> pstart p = 0 -> plen p = c -> kind_of p = KU c -> std_c c -> 0 <= v < 2 ^ c ->
    let f := c_encode_msg fid [p] [v] in
    cf_word f mod 2 ^ c = bswap c v /\ c_decode_msg [p] f = [v].
Proof. exact c_big_single_unsigned_lemma. Qed.
Print Assumptions c_big_single_unsigned.

(* the same for a signed one (two's complement bytes); above the DLC the word may hold the sign extension of the swapped value *)
Theorem c_big_single_signed :
  forall fid p v c, is_big p = true -> pstart p = 0 -> plen p = c -> kind_of p = KI c -> std_c c -> - 2 ^ (c - 1) <= v < 2 ^ (c - 1) ->
    let f := c_encode_msg fid [p] [v] in
    cf_word f mod 2 ^ c = bswap c (v mod 2 ^ c) /\ c_decode_msg [p] f = [v].
Proof. exact c_big_single_signed_lemma. Qed.
Print Assumptions c_big_single_signed.

(* and for a message whose only signal is a big-endian f32 / f64 (bit patterns) *)
Theorem c_big_single_float :
  forall fid p v, is_big p = true -> pstart p = 0 ->
    (kind_of p = KF32 /\ plen p = 32 /\ 0 <= v < 2 ^ 32 \/ kind_of p = KF64 /\ plen p = 64 /\ 0 <= v < 2 ^ 64) ->
    let f := c_encode_msg fid [p] [v] in
    cf_word f = bswap (plen p) v /\ c_decode_msg [p] f = [v].
Proof. exact c_big_single_float_lemma. Qed.
Print Assumptions c_big_single_float.

(* the byte swaps are involutions on their ranges *)
Theorem c_swaps_are_involutions :
  (forall x, 0 <= x < 65536 -> bswap16 (bswap16 x) = x) /\ (forall x, 0 <= x < 2 ^ 32 -> bswap32 (bswap32 x) = x) /\
  (forall x, 0 <= x < 2 ^ 64 -> bswap64 (bswap64 x) = x).
Proof. exact (conj bswap16_invol (conj bswap32_invol bswap64_invol)). Qed.
Print Assumptions c_swaps_are_involutions.

(* in a message of several signals a big-endian signal is lost (finding c-big-endian-multi-signal): the swap is applied to the bitfield
   after set_bitfield has shifted it; struct Msg { s0: i8, s1: u16 big }, value (0, 1) -> word 1, decoded (1, 0) *)
Theorem c06_refuted_big_endian_offset :
  let ps := [mkpiece "s0" (SI 8) 0 8 false; mkpiece "s1" (SU 16) 8 16 true] in
  let f := c_encode_msg 1 ps [0; 1] in
  cf_word f = 1 /\ c_decode_msg ps f = [1; 0].
Proof. exact c06_refuted_big_endian_offset_lemma. Qed.
Print Assumptions c06_refuted_big_endian_offset.

(* and a negative big-endian signed signal is sign-extended over the signals after it: struct Msg { s0: i32 big, s1: i16, s3: u8 },
   value (-1, -1, 0) -> every bit of the word set, decoded (-1, -1, 255) *)
Theorem c06_refuted_big_endian_sign_extension :
  let ps := [mkpiece "s0" (SI 32) 0 32 true; mkpiece "s1" (SI 16) 32 16 false; mkpiece "s3" (SU 8) 48 8 false] in
  let f := c_encode_msg 1 ps [-1; -1; 0] in
  cf_word f = 2 ^ 64 - 1 /\ c_decode_msg ps f = [-1; -1; 255].
Proof. exact c06_refuted_big_endian_sign_extension_lemma. Qed.
Print Assumptions c06_refuted_big_endian_sign_extension.

Example c06_big_nonvacuous :
  let p := mkpiece "s0" (SI 16) 0 16 true in
  is_big p = true /\ kind_of p = KI 16 /\ c_in_range p (-2) = true /\
  c_decode_msg [p] (c_encode_msg 7 [p] [-2]) = [-2] /\ cf_word (c_encode_msg 7 [p] [-2]) mod 2 ^ 16 = 65279.
Proof. exact c_big_single_nonvacuous. Qed.

(* ---- two helpers of can_c_writer.py translated from the source on every run (gen/PyCanC.v): the carrier width of enums / short types
   is the model's for every bit length a CAN message can hold, and is_signed is decided by the first letter of the type's name ---- *)
Theorem source_carrier_width_is_the_model :
  forall x, 0 <= x <= 64 -> PyCanC.py_ceil_to_power_of_2 x = ceil_pow2_8 x.
Proof. exact CWriterProofs.ceil_is_model. Qed.
Print Assumptions source_carrier_width_is_the_model.

Theorem source_signedness_is_the_first_letter_of_the_type_name :
  forall name, PyCanC.py_is_signed name = starts_with_i name.
Proof. exact CWriterProofs.is_signed_is_first_letter. Qed.
Print Assumptions source_signedness_is_the_first_letter_of_the_type_name.

(* create_can_signals of the same file, translated as well: for every layout, start bit, length and byte order of each signal are the
   layout piece's, the signedness is the first letter of the type's name, and the message length is the DLC of the model's frame *)
Theorem source_can_signals_are_the_layout :
  forall ps,
    let '(sigs, dlc) := PyCanC.py_create_can_signals ps in
    map (fun s => (CWriterLib.cs_start_bit s, CWriterLib.cs_bit_length s, String.eqb (CWriterLib.cs_byte_order s) "big_endian", CWriterLib.cs_signed s)) sigs
    = map (fun p => (pstart p, plen p, is_big p, starts_with_i (CWriterLib.piece_type_name p))) ps /\
    dlc = fold_left Z.max (map (fun p => (pstart p + plen p + 7) / 8) ps) 0.
Proof. exact CWriterProofs.create_can_signals_is_the_layout. Qed.
Print Assumptions source_can_signals_are_the_layout.

Theorem source_dlc_is_the_models :
  forall fid ps vs, cf_dlc (c_encode_msg fid ps vs) = snd (PyCanC.py_create_can_signals ps) mod 16.
Proof. exact CWriterProofs.create_can_signals_dlc_is_the_models. Qed.
Print Assumptions source_dlc_is_the_models.

Example c06_nonvacuous :
  let ps := [mkp "a"%string (SI 16) 0 16; mkp "m"%string (SEnumRef "Mode") 16 4; mkp "b"%string (SU 32) 20 32; mkp "c"%string (SI 8) 52 8] in
  let vs := [-2; 3; 4000000000; -128] in
  contiguous 0 ps 60 /\ Forall2 sig_ok ps vs /\ c_decode_msg ps (c_encode_msg 100 ps vs) = vs.
Proof.
  cbv zeta. split; [cbn; repeat split; reflexivity|]. split.
  - repeat (apply Forall2_cons; [split; [unfold piece_fits; cbn; lia|split; vm_compute; reflexivity]|]). apply Forall2_nil.
  - vm_compute. reflexivity.
Qed.
