(* C08 — accepted schemas have no dangling or mis-kinded type references.  Statements only. *)
From Coq Require Import String ZArith List Bool.
From FcpV Require Import Schema.Types Front.Lexer Front.Parser Front.Elab Front.ElabProofs.
Import ListNotations.
Open Scope string_scope.

(* whatever composed_type accepts - at any nesting depth inside arrays, dynamic
   arrays and optionals - refers to a struct of the table (tagged Struct) or to
   an enum of the table that no struct shadows (tagged Enum) *)
Theorem composed_type_refs_resolve :
  forall ss es t r, elab_ty ss es t = EOk r -> Forall (ref_ok ss es) (srefs r).
Proof. exact elab_ty_refs. Qed.
Print Assumptions composed_type_refs_resolve.

(* a reference to a name that is in neither table is an error value that names
   that type; it never yields a tree *)
Theorem undeclared_ref_is_error :
  forall ss es t ns, elab_ty ss es t = EErr ns ->
    exists n, ns = [n] /\ In n (prefs t) /\ ~ In n ss /\ ~ In n es.
Proof. exact elab_ty_err. Qed.
Print Assumptions undeclared_ref_is_error.

(* every accepted schema, over any file map and any module graph: each struct
   reference resolves to a struct elaborated EARLIER (same file or a module
   imported earlier; no forward and no self reference), each enum reference to
   a declared enum *)
Theorem accepted_refs_resolve :
  forall o fs root f, front_end o fs root = EOk f -> wf_front f.
Proof. exact accepted_refs_resolve_lemma. Qed.
Print Assumptions accepted_refs_resolve.

Example c08_nonvacuous :
  elab_ty ["A"] ["E"] (PTOpt (PTArr (PTRef "E") (PVInt 2))) = EOk (SOpt (SArr (SEnumRef "E") 2)) /\
  elab_ty ["A"] ["E"] (PTDyn (PTRef "B")) = EErr ["B"] /\
  (exists f, front_end [] [(["main.fcp"], "version: ""3"" enum E { A = 1, } struct S { x @0: [E], } struct T { y @0: Optional[S], }")] ["main.fcp"] = EOk f) /\
  front_end [] [(["main.fcp"], "version: ""3"" struct S { x @0: [S, 2], }")] ["main.fcp"] = EErr ["S"; "S"; "main.fcp"].
Proof. repeat split; try reflexivity. eexists. vm_compute. reflexivity. Qed.
