(* C12 — reflection is a lossless, faithful description of the schema.  Statements only. *)
From Coq Require Import String ZArith List Bool.
From FcpV Require Import Schema.Types Wire.Wire Py.PySerde Py.PySerdeProofs Reflect.Reflection Reflect.ReflectionProofs.
From FcpV Require Import Verifier.Checks Py.BufferLib Py.DispatchLib Verifier.ChecksLib Layout.Packed Layout.EncoderLib Specs.SpecsLib Specs.SpecsProofs.
From FcpV Require Import gen.ReflSchema.
From FcpV Require Reflect.ReflLib Reflect.ReflSrcProofs gen.PyRefl.
Import ListNotations.
Open Scope Z_scope.

(* the built-in reflection schema (src/fcp/reflection/reflection.fcp, parsed by
   the real front end and regenerated on every run) is the one the model of
   reflection() is written against *)
Theorem refl_schema_is_expected : ReflSchema.schema = expected_schema.
Proof. exact ReflSchema.schema_ok. Qed.
Print Assumptions refl_schema_is_expected.

(* serializing any reflection record that is in range for that schema and
   decoding the bytes returns the same record (instance of C01) *)
Theorem reflection_roundtrip :
  forall t T bytes,
    resolve ReflSchema.schema "Fcp" = Some T -> has_type_gen py_okS T (reflection t) = true ->
    py_encode ReflSchema.schema "Fcp" (reflection t) = Some bytes ->
    py_decode ReflSchema.schema "Fcp" bytes = Some (Ok (reflection t)).
Proof. intros t T bytes Hr Hty He. exact (py_roundtrip_partial_lemma _ _ T _ _ Hr Hty He). Qed.
Print Assumptions reflection_roundtrip.

(* the record lists every struct, field (name, id, flattened type chain, unit,
   range), enumerator, binding (extension fields, signal blocks) and service
   with the declared values: the schema tree can be read back from it exactly *)
Theorem reflection_faithful : forall t, unreflect (reflection t) = Some t.
Proof. exact reflection_faithful_lemma. Qed.
Print Assumptions reflection_faithful.

Theorem reflection_injective : forall t1 t2, reflection t1 = reflection t2 -> t1 = t2.
Proof. exact reflection_injective_lemma. Qed.
Print Assumptions reflection_injective.

(* non-vacuity: a tree with every node kind is in range and round-trips *)
Definition c12_meta := Some {| m_line := 3; m_end_line := 6; m_col := 1; m_end_col := 2; m_start := 20; m_end := 80; m_file := "main.fcp" |}.
Definition c12_tree : rtree :=
  {| r_version := 3000;
     r_structs := [ {| rs_name := "S"; rs_meta := c12_meta; rs_fields :=
        [ {| rf_name := "a"; rf_id := 0; rf_type := TOpt (TArr (TLeaf "u7" "unsigned") 3); rf_unit := Some "V"%string;
             rf_min := Some 0; rf_max := Some 4609434218613702656; rf_meta := c12_meta |};
          {| rf_name := "e"; rf_id := 1; rf_type := TDyn (TLeaf "E" "Enum"); rf_unit := None; rf_min := None; rf_max := None; rf_meta := None |} ] |} ];
     r_enums := [ {| rn_name := "E"; rn_meta := None; rn_vals := [ {| re_name := "A"; re_value := 5; re_meta := c12_meta |} ] |} ];
     r_impls := [ {| ri_name := "S"; ri_protocol := "can"; ri_type := "S"; ri_fields := [("id", "10")]%string; ri_meta := None;
                     ri_signals := [ {| rg_name := "a"; rg_fields := [("mux_count", "4")]%string; rg_meta := c12_meta |} ] |} ];
     r_services := [ {| rv_name := "Sv"; rv_id := 1; rv_meta := None;
                        rv_methods := [ {| rm_name := "m"; rm_id := 0; rm_input := "S"; rm_output := "S"; rm_meta := None |} ] |} ] |}.
(* ---- the reflection() methods of src/fcp/specs/*.py (MetaData, StructField, Struct, Enumeration, Enum, SignalBlock, Impl, Method,
   Service, FcpV2 and the Type classes) are translated from the source on every run (gen/PyRefl.v); a dict literal is read by the codec
   by key in the order of the reflection schema.  The translated FcpV2.reflection() is the model's record for every tree, so the
   theorems above are about the source ---- *)
Theorem source_reflection_is_the_model : forall t, PyRefl.py_FcpV2_reflection t = reflection t.
Proof. exact ReflSrcProofs.reflection_is_model. Qed.
Print Assumptions source_reflection_is_the_model.

(* the type chain: every Type class's translated method is the model's entry for that class, followed by the underlying type's chain *)
Theorem source_type_chain_is_the_model :
  (forall n k, PyRefl.py_NumericType_reflection n k = refl_type (TLeaf n k)) /\
  PyRefl.py_StringType_reflection = refl_type (TLeaf "str" "str") /\
  (forall n, PyRefl.py_EnumType_reflection n = refl_type (TLeaf n "Enum")) /\
  (forall n, PyRefl.py_StructType_reflection n = refl_type (TLeaf n "Struct")) /\
  (forall t n, PyRefl.py_ArrayType_reflection n (refl_type t) = refl_type (TArr t n)) /\
  (forall t, PyRefl.py_DynamicArrayType_reflection (refl_type t) = refl_type (TDyn t)) /\
  (forall t, PyRefl.py_OptionalType_reflection (refl_type t) = refl_type (TOpt t)).
Proof.
  exact (conj ReflSrcProofs.numeric_type (conj ReflSrcProofs.string_type (conj ReflSrcProofs.enum_type (conj ReflSrcProofs.struct_type
         (conj ReflSrcProofs.array_type (conj ReflSrcProofs.dynamic_array_type ReflSrcProofs.optional_type)))))).
Qed.
Print Assumptions source_type_chain_is_the_model.

Example c12_nonvacuous :
  match resolve ReflSchema.schema "Fcp", py_encode ReflSchema.schema "Fcp" (reflection c12_tree) with
  | Some T, Some bytes => has_type_gen py_okS T (reflection c12_tree) = true /\
                          py_decode ReflSchema.schema "Fcp" bytes = Some (Ok (reflection c12_tree))
  | _, _ => False
  end.
Proof. vm_compute. split; reflexivity. Qed.

(* ---- FcpV2.merge itself (translated from specs/v2.py on every run, gen/PySpecs.v): every list of the importer is extended by the
   module's - structs, enums, bindings, services and devices - and nothing else changes ---- *)
Theorem source_merge_is_append :
  forall t m,
    PySpecs.py_FcpV2_merge t m = POk {| t_structs := t_structs t ++ t_structs m; t_enums := t_enums t ++ t_enums m; t_impls := t_impls t ++ t_impls m;
                                        t_services := t_services t ++ t_services m; t_devices := t_devices t ++ t_devices m |}.
Proof. exact merge_is_append. Qed.
Print Assumptions source_merge_is_append.
