(* C02 — the Python codec emits and accepts exactly the canonical wire format.
   Statements only. *)
From Coq Require Import String ZArith List Bool.
From FcpV Require Import Base.Bits Schema.Types Wire.Wire Wire.WireProofs Py.PySerde Py.PySerdeProofs.
From FcpV Require Import Corr.Serde gen.StdVectors.
From FcpV Require Import Py.BufferLib gen.PyBuffer Py.BufferProofs gen.PyLeaf Py.LeafProofs.
From FcpV Require Import Py.DispatchLib Py.DispatchDefs Py.DispatchProofs Py.DispatchExample.
From FcpV Require Import Verifier.Checks Py.BufferLib Py.DispatchLib Verifier.ChecksLib Layout.Packed Layout.EncoderLib Specs.SpecsLib Specs.SpecsProofs.
Import ListNotations.
Open Scope Z_scope.

(* encode output == canonical bytes, for every schema, struct and value *)
Theorem py_encode_is_wire :
  forall sc name t v, resolve sc name = Some t -> py_encode sc name v = wire_bytes t v.
Proof. intros sc name t v Hr. unfold py_encode, wire_bytes, py_enc. now rewrite Hr. Qed.
Print Assumptions py_encode_is_wire.

(* decode(canonical bytes) == value: the full statement ... *)
Definition py_decode_of_wire_statement : Prop :=
  forall sc name t v bytes,
    resolve sc name = Some t -> has_type t v = true ->
    wire_bytes t v = Some bytes -> py_decode sc name bytes = Some (Ok v).

(* ... holds except at the signed minimum (known finding C01/signed-min) *)
Theorem py_decode_of_wire_partial :
  forall sc name t v bytes,
    resolve sc name = Some t -> has_type_gen py_okS t v = true ->
    wire_bytes t v = Some bytes -> py_decode sc name bytes = Some (Ok v).
Proof.
  intros sc name t v bytes Hr Hty Hw. apply (py_roundtrip_partial_lemma sc name t v bytes Hr Hty).
  unfold py_encode, py_enc. rewrite Hr. exact Hw.
Qed.
Print Assumptions py_decode_of_wire_partial.

Theorem py_decode_of_wire_characterised :
  forall sc name t v bytes,
    resolve sc name = Some t -> has_type t v = true ->
    wire_bytes t v = Some bytes -> py_decode sc name bytes = Some (Ok (norm py_sdec t v)).
Proof.
  intros sc name t v bytes Hr Hty Hw. apply (py_decode_encode_norm sc name t v bytes Hr Hty).
  unfold py_encode, py_enc. rewrite Hr. exact Hw.
Qed.
Print Assumptions py_decode_of_wire_characterised.

(* the specification is self-consistent: its decoder inverts its encoder on
   every in-range value (signed minimum included), so the format is injective *)
Theorem unwire_wire :
  forall t v bs rest, has_type t v = true -> wire t v = Some bs -> unwire t (bs ++ rest) = Ok (v, rest).
Proof. exact unwire_wire_lemma. Qed.
Print Assumptions unwire_wire.

Theorem wire_injective :
  forall t v1 v2 bs, has_type t v1 = true -> has_type t v2 = true ->
    wire t v1 = Some bs -> wire t v2 = Some bs -> v1 = v2.
Proof. exact wire_injective_lemma. Qed.
Print Assumptions wire_injective.

(* zero padding only in the last byte, and fewer than 8 bits of it *)
Theorem wire_bytes_padding :
  forall l, bits_of_bytes (bytes_of_bits l) = l ++ padding l /\ (length (padding l) < 8)%nat.
Proof. intros l. split; [apply BitsProofs.bits_of_bytes_of_bits|apply BitsProofs.padding_length]. Qed.
Print Assumptions wire_bytes_padding.

(* the specification agrees with the project's cross-language vectors
   (tests/standardized, regenerated into gen/StdVectors.v on every run) *)
Theorem std_vectors_are_canonical : forallb check_vector StdVectors.vectors = true.
Proof. exact StdVectors.std_vectors_ok. Qed.
Print Assumptions std_vectors_are_canonical.

Example c02_nonvacuous : (10 <= length StdVectors.vectors)%nat.
Proof. vm_compute. repeat constructor. Qed.

(* ---- the bit buffer of serde.py itself: gen/PyBuffer.v is translated from class _Buffer on every run ---- *)

(* push_word on a buffer holding n written bits appends the m low bits of the word (two's complement for a negative one) and
   keeps the buffer well-formed: ceil((n+m)/8) bytes, all in 0..255, nothing set beyond the written bits *)
Theorem buffer_push_word_appends_bits :
  forall n buf w m, W n buf ->
    exists buf', py_push_word (mk buf (Z.of_nat n)) w (Z.of_nat m) = POk (mk buf' (Z.of_nat (n + m)), tt) /\
                 W (n + m) buf' /\ enc_abs buf' (n + m) = enc_abs buf n ++ bits_of_Z m w.
Proof. exact push_word_refines. Qed.
Print Assumptions buffer_push_word_appends_bits.

(* a fresh buffer, any sequence of push_word calls, get_buffer(): the bytes are the zero-padded LSB-first packing of the
   concatenated words - the byte form of the wire model, with no bound on the number or width of the words *)
Theorem buffer_encode_is_packing :
  forall ws, exists self, push_all py_init ws = POk self /\
             exists self', py_get_buffer self = POk (self', bytes_of_bits (word_bits ws)).
Proof. exact encode_bytes. Qed.
Print Assumptions buffer_encode_is_packing.

(* read_word at bit cursor a is the wire model's read_word on the unread bits, overrun included *)
Theorem buffer_read_word_is_wire_read :
  forall buf a m,
    py_read_word (mk buf (Z.of_nat a)) (Z.of_nat m) =
    match Wire.read_word m (unread buf a) with
    | Ok (z, rest) => POk (mk buf (Z.of_nat (a + m)), z)
    | Raise _ => PRaise PyValueError
    end
    /\ (forall z rest, Wire.read_word m (unread buf a) = Ok (z, rest) -> rest = unread buf (a + m)).
Proof. exact read_word_refines. Qed.
Print Assumptions buffer_read_word_is_wire_read.

(* decode() starts from the bits of the input bytes *)
Theorem buffer_decode_starts_from_input_bits :
  forall data, Forall byte_ok data ->
    exists self, py_push_bytes py_init data = POk (self, tt) /\ b_buffer self = data /\
                 unread (b_buffer (set_bitaddr self 0)) 0 = bits_of_bytes data.
Proof. exact decode_init. Qed.
Print Assumptions buffer_decode_starts_from_input_bits.

Example c02_buffer_nonvacuous :
  W 0 [] /\ (exists self u, py_push_word py_init (-3) 5 = POk (self, u) /\ py_get_buffer self = POk (self, [29])).
Proof. split; [exact W_init|]. eexists. eexists. split; vm_compute; reflexivity. Qed.

(* ---- the leaf codecs of serde.py (gen/PyLeaf.v, translated from _encode_builtin_* / _decode_builtin_* on every run) are the
   leaves of the wire format: an integer of width m is its m low bits, a float / double the 32 / 64 bits of its pattern ---- *)

Theorem leaf_encode_unsigned_is_wire :
  forall n buf m z, W n buf ->
    exists buf', py__encode_builtin_unsigned (mk buf (Z.of_nat n)) (num m) z = POk (mk buf' (Z.of_nat (n + m)), tt) /\
                 W (n + m) buf' /\ enc_abs buf' (n + m) = enc_abs buf n ++ bits_of_Z m z.
Proof. exact encode_unsigned_appends. Qed.
Print Assumptions leaf_encode_unsigned_is_wire.

Theorem leaf_encode_signed_is_wire :
  forall n buf m z, W n buf ->
    exists buf', py__encode_builtin_signed (mk buf (Z.of_nat n)) (num m) z = POk (mk buf' (Z.of_nat (n + m)), tt) /\
                 W (n + m) buf' /\ enc_abs buf' (n + m) = enc_abs buf n ++ bits_of_Z m z.
Proof. exact encode_signed_appends. Qed.
Print Assumptions leaf_encode_signed_is_wire.

Theorem leaf_encode_float_is_wire :
  forall n buf t bits, W n buf ->
    exists buf', py__encode_builtin_float (mk buf (Z.of_nat n)) t bits = POk (mk buf' (Z.of_nat (n + 32)), tt) /\
                 W (n + 32) buf' /\ enc_abs buf' (n + 32) = enc_abs buf n ++ bits_of_Z 32 bits.
Proof. exact encode_float_appends. Qed.
Print Assumptions leaf_encode_float_is_wire.

Theorem leaf_encode_double_is_wire :
  forall n buf t bits, W n buf ->
    exists buf', py__encode_builtin_double (mk buf (Z.of_nat n)) t bits = POk (mk buf' (Z.of_nat (n + 64)), tt) /\
                 W (n + 64) buf' /\ enc_abs buf' (n + 64) = enc_abs buf n ++ bits_of_Z 64 bits.
Proof. exact encode_double_appends. Qed.
Print Assumptions leaf_encode_double_is_wire.

Theorem leaf_decode_unsigned_is_wire :
  forall buf a m,
    py__decode_builtin_unsigned (mk buf (Z.of_nat a)) (num m) =
    match Wire.read_word m (unread buf a) with
    | Ok (w, _) => POk (mk buf (Z.of_nat (a + m)), w)
    | Raise _ => PRaise PyValueError
    end.
Proof. exact decode_unsigned_is_read_word. Qed.
Print Assumptions leaf_decode_unsigned_is_wire.

(* the sign reconstruction of the source (max = 2**length; word > max / 2) is the model's py_sdec *)
Theorem leaf_decode_signed_is_wire_then_py_sdec :
  forall buf a m,
    py__decode_builtin_signed (mk buf (Z.of_nat a)) (num m) =
    match Wire.read_word m (unread buf a) with
    | Ok (w, _) => POk (mk buf (Z.of_nat (a + m)), py_sdec m w)
    | Raise _ => PRaise PyValueError
    end.
Proof. exact decode_signed_is_read_word_then_sdec. Qed.
Print Assumptions leaf_decode_signed_is_wire_then_py_sdec.

Theorem leaf_decode_float_is_wire :
  forall buf a t, (a <= 8 * length buf)%nat ->
    py__decode_builtin_float (mk buf (Z.of_nat a)) t =
    match Wire.read_word 32 (unread buf a) with
    | Ok (w, _) => POk (mk buf (Z.of_nat (a + 32)), w)
    | Raise _ => PRaise PyValueError
    end.
Proof. exact decode_float_is_read_word. Qed.
Print Assumptions leaf_decode_float_is_wire.

Theorem leaf_decode_double_is_wire :
  forall buf a t, (a <= 8 * length buf)%nat ->
    py__decode_builtin_double (mk buf (Z.of_nat a)) t =
    match Wire.read_word 64 (unread buf a) with
    | Ok (w, _) => POk (mk buf (Z.of_nat (a + 64)), w)
    | Raise _ => PRaise PyValueError
    end.
Proof. exact decode_double_is_read_word. Qed.
Print Assumptions leaf_decode_double_is_wire.

Example c02_leaf_nonvacuous :
  py__decode_builtin_signed (mk [128] 0) (num 8) = POk (mk [128] 8, 128) /\
  py__decode_builtin_signed (mk [129] 0) (num 8) = POk (mk [129] 8, -127) /\
  py__decode_builtin_float (mk [0; 0; 192; 63] 0) (num 32) = POk (mk [0; 0; 192; 63] 32, 1069547520).
Proof. repeat split; vm_compute; reflexivity. Qed.

(* ---- serde.py END TO END (every function of the file translated from the source on every run): the translated encode(),
   run on the Python image of a value, returns the canonical format Wire.wire packed into bytes - for every schema with unique
   struct and field names, every struct and every value the specification encodes and Python can represent *)
Theorem source_encode_is_wire :
  forall sc, NoDup (map sname (structs sc)) ->
  forall name t v bs fuel,
    resolve sc name = Some t -> uniq t -> repr t v = true -> (depth t <= S fuel)%nat -> wire t v = Some bs ->
    PyDispatch.py_encode fuel sc name (embed t v) = POk (bytes_of_bits bs).
Proof. exact translated_encode_is_wire. Qed.
Print Assumptions source_encode_is_wire.

(* at any type and any cursor: _encode appends exactly the specification's bits to what the buffer holds *)
Theorem source_encode_appends_wire :
  forall sc t st v bs fuel n buf,
    den sc t st -> wire t v = Some bs -> repr t v = true -> uniq t -> (depth t <= fuel)%nat -> W n buf ->
    exists buf', PyDispatch.py__encode fuel (mk buf (Z.of_nat n)) sc st (embed t v) = POk (mk buf' (Z.of_nat (n + length bs)), tt) /\
                 W (n + length bs) buf' /\ enc_abs buf' (n + length bs) = enc_abs buf n ++ bs.
Proof. exact encode_refines. Qed.
Print Assumptions source_encode_appends_wire.

Example c02_source_nonvacuous :
  exists bytes, PyDispatch.py_encode 8 ex_sc "M" (embed ex_t ex_v) = POk bytes /\ PyDispatch.py_decode 8 ex_sc "M" bytes = POk (embed ex_t ex_v)
                /\ length bytes = 18%nat.
Proof. exact translated_code_runs. Qed.

(* ---- the look-ups the translated codec calls (FcpV2.get_struct / get_enum, Enum.get_packed_size: translated from specs/v2.py and
   specs/enum.py on every run, gen/PySpecs.v) are the functions its run-time library assumes; only the float log2 inside
   get_packed_size stays an assumption (py_floor_log2_plus1) ---- *)
Theorem source_lookups_are_the_library :
  forall t name,
    (PySpecs.py_FcpV2_get_struct t name = POk (find (fun s => String.eqb (sname s) name) (t_structs t)) /\
     py_get_struct (schema_of t) name = match find (fun s => String.eqb (sname s) name) (t_structs t) with Some s => POk s | None => PRaise PyUnwrapError end) /\
    (PySpecs.py_FcpV2_get_enum t name = POk (find (fun e => String.eqb (ename e) name) (t_enums t)) /\
     py_get_enum (schema_of t) name = match find (fun e => String.eqb (ename e) name) (t_enums t) with Some e => POk e | None => PRaise PyUnwrapError end).
Proof. intros t name. split; [apply get_struct_is_library|apply get_enum_is_library]. Qed.
Print Assumptions source_lookups_are_the_library.

Theorem source_enum_width_is_the_library :
  forall e, Forall (fun v => 0 <= v) (map snd (evals e)) -> PySpecs.py_Enum_get_packed_size e = POk (enum_packed_size e).
Proof. exact get_packed_size_is_model. Qed.
Print Assumptions source_enum_width_is_the_library.
