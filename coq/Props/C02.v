(* C02 — the Python codec emits and accepts exactly the canonical wire format.
   Statements only. *)
From Coq Require Import String ZArith List Bool.
From FcpV Require Import Base.Bits Schema.Types Wire.Wire Wire.WireProofs Py.PySerde Py.PySerdeProofs.
From FcpV Require Import Corr.Serde gen.StdVectors.
From FcpV Require Import Py.BufferLib gen.PyBuffer Py.BufferProofs.
Import ListNotations.
Open Scope Z_scope.

(* encode output == canonical bytes, for every schema, struct and value *)
Theorem py_encode_is_wire :
  forall sc name t v, resolve sc name = Some t -> py_encode sc name v = wire_bytes t v.
Proof. intros sc name t v Hr. unfold py_encode, wire_bytes, py_enc. now rewrite Hr. Qed.
Print Assumptions py_encode_is_wire.

(* decode(canonical bytes) == value: the full statement ... *)
Definition py_decode_of_wire_statement : Prop :=
  forall sc name t v bytes,
    resolve sc name = Some t -> has_type t v = true ->
    wire_bytes t v = Some bytes -> py_decode sc name bytes = Some (Ok v).

(* ... holds except at the signed minimum (known finding C01/signed-min) *)
Theorem py_decode_of_wire_partial :
  forall sc name t v bytes,
    resolve sc name = Some t -> has_type_gen py_okS t v = true ->
    wire_bytes t v = Some bytes -> py_decode sc name bytes = Some (Ok v).
Proof.
  intros sc name t v bytes Hr Hty Hw. apply (py_roundtrip_partial_lemma sc name t v bytes Hr Hty).
  unfold py_encode, py_enc. rewrite Hr. exact Hw.
Qed.
Print Assumptions py_decode_of_wire_partial.

Theorem py_decode_of_wire_characterised :
  forall sc name t v bytes,
    resolve sc name = Some t -> has_type t v = true ->
    wire_bytes t v = Some bytes -> py_decode sc name bytes = Some (Ok (norm py_sdec t v)).
Proof.
  intros sc name t v bytes Hr Hty Hw. apply (py_decode_encode_norm sc name t v bytes Hr Hty).
  unfold py_encode, py_enc. rewrite Hr. exact Hw.
Qed.
Print Assumptions py_decode_of_wire_characterised.

(* the specification is self-consistent: its decoder inverts its encoder on
   every in-range value (signed minimum included), so the format is injective *)
Theorem unwire_wire :
  forall t v bs rest, has_type t v = true -> wire t v = Some bs -> unwire t (bs ++ rest) = Ok (v, rest).
Proof. exact unwire_wire_lemma. Qed.
Print Assumptions unwire_wire.

Theorem wire_injective :
  forall t v1 v2 bs, has_type t v1 = true -> has_type t v2 = true ->
    wire t v1 = Some bs -> wire t v2 = Some bs -> v1 = v2.
Proof. exact wire_injective_lemma. Qed.
Print Assumptions wire_injective.

(* zero padding only in the last byte, and fewer than 8 bits of it *)
Theorem wire_bytes_padding :
  forall l, bits_of_bytes (bytes_of_bits l) = l ++ padding l /\ (length (padding l) < 8)%nat.
Proof. intros l. split; [apply BitsProofs.bits_of_bytes_of_bits|apply BitsProofs.padding_length]. Qed.
Print Assumptions wire_bytes_padding.

(* the specification agrees with the project's cross-language vectors
   (tests/standardized, regenerated into gen/StdVectors.v on every run) *)
Theorem std_vectors_are_canonical : forallb check_vector StdVectors.vectors = true.
Proof. exact StdVectors.std_vectors_ok. Qed.
Print Assumptions std_vectors_are_canonical.

Example c02_nonvacuous : (10 <= length StdVectors.vectors)%nat.
Proof. vm_compute. repeat constructor. Qed.

(* ---- the bit buffer of serde.py itself: gen/PyBuffer.v is translated from class _Buffer on every run ---- *)

(* push_word on a buffer holding n written bits appends the m low bits of the word (two's complement for a negative one) and
   keeps the buffer well-formed: ceil((n+m)/8) bytes, all in 0..255, nothing set beyond the written bits *)
Theorem buffer_push_word_appends_bits :
  forall n buf w m, W n buf ->
    exists buf', py_push_word (mk buf (Z.of_nat n)) w (Z.of_nat m) = POk (mk buf' (Z.of_nat (n + m)), tt) /\
                 W (n + m) buf' /\ enc_abs buf' (n + m) = enc_abs buf n ++ bits_of_Z m w.
Proof. exact push_word_refines. Qed.
Print Assumptions buffer_push_word_appends_bits.

(* a fresh buffer, any sequence of push_word calls, get_buffer(): the bytes are the zero-padded LSB-first packing of the
   concatenated words - the byte form of the wire model, with no bound on the number or width of the words *)
Theorem buffer_encode_is_packing :
  forall ws, exists self, push_all py_init ws = POk self /\
             exists self', py_get_buffer self = POk (self', bytes_of_bits (word_bits ws)).
Proof. exact encode_bytes. Qed.
Print Assumptions buffer_encode_is_packing.

(* read_word at bit cursor a is the wire model's read_word on the unread bits, overrun included *)
Theorem buffer_read_word_is_wire_read :
  forall buf a m,
    py_read_word (mk buf (Z.of_nat a)) (Z.of_nat m) =
    match Wire.read_word m (unread buf a) with
    | Ok (z, rest) => POk (mk buf (Z.of_nat (a + m)), z)
    | Raise _ => PRaise PyValueError
    end
    /\ (forall z rest, Wire.read_word m (unread buf a) = Ok (z, rest) -> rest = unread buf (a + m)).
Proof. exact read_word_refines. Qed.
Print Assumptions buffer_read_word_is_wire_read.

(* decode() starts from the bits of the input bytes *)
Theorem buffer_decode_starts_from_input_bits :
  forall data, Forall byte_ok data ->
    exists self, py_push_bytes py_init data = POk (self, tt) /\ b_buffer self = data /\
                 unread (b_buffer (set_bitaddr self 0)) 0 = bits_of_bytes data.
Proof. exact decode_init. Qed.
Print Assumptions buffer_decode_starts_from_input_bits.

Example c02_buffer_nonvacuous :
  W 0 [] /\ (exists self u, py_push_word py_init (-3) 5 = POk (self, u) /\ py_get_buffer self = POk (self, [29])).
Proof. split; [exact W_init|]. eexists. eexists. split; vm_compute; reflexivity. Qed.
