(* C02 — the Python codec emits and accepts exactly the canonical wire format.
   Statements only. *)
From Coq Require Import String ZArith List Bool.
From FcpV Require Import Base.Bits Schema.Types Wire.Wire Wire.WireProofs Py.PySerde Py.PySerdeProofs.
From FcpV Require Import Corr.Serde gen.StdVectors.
Import ListNotations.
Open Scope Z_scope.

(* encode output == canonical bytes, for every schema, struct and value *)
Theorem py_encode_is_wire :
  forall sc name t v, resolve sc name = Some t -> py_encode sc name v = wire_bytes t v.
Proof. intros sc name t v Hr. unfold py_encode, wire_bytes, py_enc. now rewrite Hr. Qed.
Print Assumptions py_encode_is_wire.

(* decode(canonical bytes) == value: the full statement ... *)
Definition py_decode_of_wire_statement : Prop :=
  forall sc name t v bytes,
    resolve sc name = Some t -> has_type t v = true ->
    wire_bytes t v = Some bytes -> py_decode sc name bytes = Some (Ok v).

(* ... holds except at the signed minimum (known finding C01/signed-min) *)
Theorem py_decode_of_wire_partial :
  forall sc name t v bytes,
    resolve sc name = Some t -> has_type_gen py_okS t v = true ->
    wire_bytes t v = Some bytes -> py_decode sc name bytes = Some (Ok v).
Proof.
  intros sc name t v bytes Hr Hty Hw. apply (py_roundtrip_partial_lemma sc name t v bytes Hr Hty).
  unfold py_encode, py_enc. rewrite Hr. exact Hw.
Qed.
Print Assumptions py_decode_of_wire_partial.

Theorem py_decode_of_wire_characterised :
  forall sc name t v bytes,
    resolve sc name = Some t -> has_type t v = true ->
    wire_bytes t v = Some bytes -> py_decode sc name bytes = Some (Ok (norm py_sdec t v)).
Proof.
  intros sc name t v bytes Hr Hty Hw. apply (py_decode_encode_norm sc name t v bytes Hr Hty).
  unfold py_encode, py_enc. rewrite Hr. exact Hw.
Qed.
Print Assumptions py_decode_of_wire_characterised.

(* the specification is self-consistent: its decoder inverts its encoder on
   every in-range value (signed minimum included), so the format is injective *)
Theorem unwire_wire :
  forall t v bs rest, has_type t v = true -> wire t v = Some bs -> unwire t (bs ++ rest) = Ok (v, rest).
Proof. exact unwire_wire_lemma. Qed.
Print Assumptions unwire_wire.

Theorem wire_injective :
  forall t v1 v2 bs, has_type t v1 = true -> has_type t v2 = true ->
    wire t v1 = Some bs -> wire t v2 = Some bs -> v1 = v2.
Proof. exact wire_injective_lemma. Qed.
Print Assumptions wire_injective.

(* zero padding only in the last byte, and fewer than 8 bits of it *)
Theorem wire_bytes_padding :
  forall l, bits_of_bytes (bytes_of_bits l) = l ++ padding l /\ (length (padding l) < 8)%nat.
Proof. intros l. split; [apply BitsProofs.bits_of_bytes_of_bits|apply BitsProofs.padding_length]. Qed.
Print Assumptions wire_bytes_padding.

(* the specification agrees with the project's cross-language vectors
   (tests/standardized, regenerated into gen/StdVectors.v on every run) *)
Theorem std_vectors_are_canonical : forallb check_vector StdVectors.vectors = true.
Proof. exact StdVectors.std_vectors_ok. Qed.
Print Assumptions std_vectors_are_canonical.

Example c02_nonvacuous : (10 <= length StdVectors.vectors)%nat.
Proof. vm_compute. repeat constructor. Qed.
