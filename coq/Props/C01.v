(* C01 — Python codec round-trip.  Statements only. *)
From Coq Require Import String ZArith List Bool.
From FcpV Require Import Base.Bits Schema.Types Wire.Wire Wire.WireProofs Py.PySerde Py.PySerdeProofs.
From FcpV Require Import Py.BufferLib gen.PyBuffer Py.BufferProofs gen.PyLeaf Py.LeafProofs.
From FcpV Require Import Py.DispatchLib Py.DispatchDefs Py.DispatchProofs Py.DispatchExample.
From FcpV Require Import Verifier.Checks Py.BufferLib Py.DispatchLib Verifier.ChecksLib Layout.Packed Layout.EncoderLib Specs.SpecsLib Specs.SpecsProofs.
Import ListNotations.
Open Scope Z_scope.

(* The property at full strength: every schema, every struct, every in-range value. *)
Definition py_roundtrip_statement : Prop :=
  forall sc name t v bytes,
    resolve sc name = Some t -> has_type t v = true ->
    py_encode sc name v = Some bytes -> py_decode sc name bytes = Some (Ok v).

(* What holds of the code as it is: the full statement for every value whose
   signed leaves are not the minimum -2^(n-1) ... *)
Theorem py_roundtrip_partial :
  forall sc name t v bytes,
    resolve sc name = Some t -> has_type_gen py_okS t v = true ->
    py_encode sc name v = Some bytes -> py_decode sc name bytes = Some (Ok v).
Proof. exact py_roundtrip_partial_lemma. Qed.
Print Assumptions py_roundtrip_partial.

(* ... and for EVERY in-range value the exact result: the value with each
   signed leaf z replaced by py_sdec n (z mod 2^n) (the identity except at
   the minimum, which comes back as +2^(n-1)). *)
Theorem py_roundtrip_characterised :
  forall sc name t v bytes,
    resolve sc name = Some t -> has_type t v = true ->
    py_encode sc name v = Some bytes ->
    py_decode sc name bytes = Some (Ok (norm py_sdec t v)).
Proof. exact py_decode_encode_norm. Qed.
Print Assumptions py_roundtrip_characterised.

Theorem py_signed_min_comes_back_positive :
  forall n, (1 <= n)%nat ->
    norm py_sdec (RI n) (VInt (- 2 ^ (Z.of_nat n - 1))) = VInt (2 ^ (Z.of_nat n - 1)).
Proof. intros n Hn. cbn [norm]. f_equal. exact (py_sdec_signed_min n Hn). Qed.
Print Assumptions py_signed_min_comes_back_positive.

Theorem py_encode_total :
  forall sc name t v, resolve sc name = Some t -> has_type t v = true ->
    exists bytes, py_encode sc name v = Some bytes.
Proof. exact py_encode_total_lemma. Qed.
Print Assumptions py_encode_total.

(* The full statement is false of the code (known finding C01/signed-min):
   witness struct S { a @0: i8 } with a = -128. *)
Definition c01_witness_schema : schema :=
  {| structs := [ {| sname := "S"; sfields := [ {| fname := "a"; fid := 0; fty := SI 8; funit := None |} ] |} ];
     enums := [] |}.
Theorem py_roundtrip_refuted_signed_min : ~ py_roundtrip_statement.
Proof.
  intros H.
  specialize (H c01_witness_schema "S"%string (RStruct [("a"%string, RI 8)])
                (VStruct [("a"%string, VInt (-128))]) [128] eq_refl eq_refl eq_refl).
  vm_compute in H. discriminate H.
Qed.
Print Assumptions py_roundtrip_refuted_signed_min.

(* Non-vacuity: every constructor, nested, at odd bit offsets. *)
Definition c01_example_schema : schema :=
  {| structs :=
       [ {| sname := "In"; sfields := [ {| fname := "x"; fid := 1; fty := SI 5; funit := None |};
                                        {| fname := "y"; fid := 0; fty := SF32; funit := None |} ] |};
         {| sname := "Out"; sfields :=
              [ {| fname := "a"; fid := 3; fty := SU 3; funit := None |};
                {| fname := "b"; fid := 0; fty := SStr; funit := None |};
                {| fname := "c"; fid := 2; fty := SArr (SStructRef "In") 2; funit := None |};
                {| fname := "d"; fid := 5; fty := SDyn (SOpt (SI 64)); funit := None |};
                {| fname := "e"; fid := 4; fty := SEnumRef "E"; funit := None |};
                {| fname := "f"; fid := 6; fty := SF64; funit := None |} ] |} ];
     enums := [ {| ename := "E"; evals := [("A"%string, 0); ("B"%string, 5)] |} ] |}.
Definition c01_example_value : value :=
  VStruct [("b"%string, VStr [104; 105]);
           ("c"%string, VList [VStruct [("y"%string, VBits 1069547520); ("x"%string, VInt (-15))];
                               VStruct [("y"%string, VBits 0); ("x"%string, VInt 15)]]);
           ("a"%string, VInt 7); ("e"%string, VInt 5);
           ("d"%string, VList [VNone; VSome (VInt (-9223372036854775807)); VSome (VInt 1)]);
           ("f"%string, VBits 13830554455654793216)].
Example c01_nonvacuous :
  match resolve c01_example_schema "Out", py_encode c01_example_schema "Out" c01_example_value with
  | Some t, Some bytes =>
      has_type_gen py_okS t c01_example_value = true /\
      py_decode c01_example_schema "Out" bytes = Some (Ok c01_example_value) /\
      (length bytes = 47)%nat
  | _, _ => False
  end.
Proof. vm_compute. repeat split; reflexivity. Qed.

(* ---- the bit buffer of serde.py itself (gen/PyBuffer.v, translated from class _Buffer on every run) ----
   any words of any widths (negative words in two's complement) written with push_word, taken out with get_buffer(), loaded
   into a fresh buffer with push_bytes and read back with read_word come back unchanged modulo 2^width *)
Theorem buffer_words_roundtrip :
  forall ws, exists s1 s2 data s3 s4,
    push_all py_init ws = POk s1 /\ py_get_buffer s1 = POk (s2, data) /\
    py_push_bytes py_init data = POk (s3, tt) /\
    read_all (set_bitaddr s3 0) (map snd ws) = POk (s4, map (fun wm => fst wm mod 2 ^ Z.of_nat (snd wm)) ws).
Proof. exact buffer_roundtrip. Qed.
Print Assumptions buffer_words_roundtrip.

Example c01_buffer_nonvacuous :
  exists s, push_all py_init [(5, 3%nat); (-1, 7%nat); (300, 9%nat)] = POk s /\ py_get_buffer s = POk (s, [253; 179; 4]).
Proof. eexists. split; vm_compute; reflexivity. Qed.

(* the known finding signed-min read off the translated source: the byte 0x80 in an i8 field, i.e. the encoding of -128, is
   decoded by _decode_builtin_signed as +128 (the comparison is word > max / 2, it should be >=) *)
Theorem source_decodes_signed_min_as_positive :
  forall m, (1 <= m)%nat -> forall buf a w rest,
    Wire.read_word m (unread buf a) = Ok (w, rest) -> w = 2 ^ (Z.of_nat m - 1) ->
    py__decode_builtin_signed (mk buf (Z.of_nat a)) (num m) = POk (mk buf (Z.of_nat (a + m)), 2 ^ (Z.of_nat m - 1)).
Proof. exact decode_signed_min_positive.
Qed.
Print Assumptions source_decodes_signed_min_as_positive.

(* ---- serde.py END TO END (gen/PyBuffer.v + gen/PyLeaf.v + gen/PyDispatch.v: every function of the file, translated from the
   source on every run).  The translated encode() and decode() are run on the Python image [embed t v] of a value:
   decode(encode(x)) = x for every schema with unique struct names and unique field names, every struct, every in-range value
   whose signed leaves are not the minimum and that Python can represent (no Some(None)); fuel = Python's recursion depth. *)
Theorem source_roundtrip :
  forall sc, NoDup (map sname (structs sc)) ->
  forall name t v fuel,
    resolve sc name = Some t -> uniq t -> repr t v = true -> (depth t <= S fuel)%nat -> has_type_gen py_okS t v = true ->
    exists bytes, PyDispatch.py_encode fuel sc name (embed t v) = POk bytes /\
                  PyDispatch.py_decode fuel sc name bytes = POk (embed t v).
Proof. exact translated_roundtrip. Qed.
Print Assumptions source_roundtrip.

(* the hand-written model the other theorems of this file are about IS the translated source: same bytes, same outcome *)
Theorem source_encode_is_model :
  forall sc, NoDup (map sname (structs sc)) ->
  forall name t v bytes fuel,
    resolve sc name = Some t -> uniq t -> repr t v = true -> (depth t <= S fuel)%nat ->
    py_encode sc name v = Some bytes -> PyDispatch.py_encode fuel sc name (embed t v) = POk bytes.
Proof. exact translated_encode_is_model. Qed.
Print Assumptions source_encode_is_model.

Theorem source_decode_is_model :
  forall sc, NoDup (map sname (structs sc)) ->
  forall name t data fuel,
    resolve sc name = Some t -> uniq t -> (depth t <= S fuel)%nat -> Forall byte_ok data ->
    exists o, py_decode sc name data = Some o /\
              PyDispatch.py_decode fuel sc name data = match o with Ok v => POk (embed t v) | Raise e => PRaise (exn_py e) end.
Proof. exact translated_decode_is_model. Qed.
Print Assumptions source_decode_is_model.

Example c01_source_nonvacuous :
  NoDup (map sname (structs ex_sc)) /\ resolve ex_sc "M" = Some ex_t /\ uniq ex_t /\ repr ex_t ex_v = true /\
  (depth ex_t <= S 8)%nat /\ has_type_gen py_okS ex_t ex_v = true.
Proof. exact hypotheses_nonvacuous. Qed.

(* ---- the look-ups the translated codec calls (FcpV2.get_struct / get_enum, Enum.get_packed_size: translated from specs/v2.py and
   specs/enum.py on every run, gen/PySpecs.v) are the functions its run-time library assumes; only the float log2 inside
   get_packed_size stays an assumption (py_floor_log2_plus1) ---- *)
Theorem source_lookups_are_the_library :
  forall t name,
    (PySpecs.py_FcpV2_get_struct t name = POk (find (fun s => String.eqb (sname s) name) (t_structs t)) /\
     py_get_struct (schema_of t) name = match find (fun s => String.eqb (sname s) name) (t_structs t) with Some s => POk s | None => PRaise PyUnwrapError end) /\
    (PySpecs.py_FcpV2_get_enum t name = POk (find (fun e => String.eqb (ename e) name) (t_enums t)) /\
     py_get_enum (schema_of t) name = match find (fun e => String.eqb (ename e) name) (t_enums t) with Some e => POk e | None => PRaise PyUnwrapError end).
Proof. intros t name. split; [apply get_struct_is_library|apply get_enum_is_library]. Qed.
Print Assumptions source_lookups_are_the_library.

Theorem source_enum_width_is_the_library :
  forall e, Forall (fun v => 0 <= v) (map snd (evals e)) -> PySpecs.py_Enum_get_packed_size e = POk (enum_packed_size e).
Proof. exact get_packed_size_is_model. Qed.
Print Assumptions source_enum_width_is_the_library.
