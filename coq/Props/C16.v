(* C16 — the Python decoder detects truncated input.  Statements only. *)
From Coq Require Import String ZArith List Bool.
From FcpV Require Import Base.Bits Schema.Types Wire.Wire Wire.WireProofs Py.PySerde Py.PySerdeProofs.
From FcpV Require Import Py.BufferLib gen.PyBuffer Py.BufferProofs Corr.Serde Corr.SerdeCapProofs.
From FcpV Require Import Py.DispatchLib Py.DispatchDefs Py.DispatchProofs Py.DispatchExample.
From FcpV Require Import Verifier.Checks Py.BufferLib Py.DispatchLib Verifier.ChecksLib Layout.Packed Layout.EncoderLib Specs.SpecsLib Specs.SpecsProofs.
Import ListNotations.
Open Scope Z_scope.

(* every strict byte prefix (each byte boundary k) of the encoding of every
   in-range value of every schema raises the decoder's overrun error *)
Theorem decode_prefix_fails :
  forall sc name t v bytes k,
    resolve sc name = Some t -> has_type t v = true ->
    py_encode sc name v = Some bytes -> (k < length bytes)%nat ->
    py_decode sc name (firstn k bytes) = Some (Raise Overrun).
Proof. exact py_decode_prefix_fails_lemma. Qed.
Print Assumptions decode_prefix_fails.

(* bit-level form: any strict bit prefix of a canonical encoding overruns,
   at any type (hence at any nesting depth and any cursor position) *)
Theorem decode_bit_prefix_fails :
  forall t v bs p,
    has_type t v = true -> wire t v = Some bs -> sprefix p bs ->
    py_dec t p = Raise Overrun.
Proof.
  intros t v bs p Hty He Hp.
  exact (proj2 (gdec_wire py_sdec t v bs (has_type_py_weaken t v Hty) He) p Hp).
Qed.
Print Assumptions decode_bit_prefix_fails.

Example c16_nonvacuous :
  let sc := {| structs := [ {| sname := "S"; sfields := [ {| fname := "a"; fid := 0; fty := SU 4; funit := None |};
                                                         {| fname := "s"; fid := 1; fty := SStr; funit := None |} ] |} ];
               enums := [] |} in
  let v := VStruct [("a"%string, VInt 9); ("s"%string, VStr [104; 105])] in
  exists bytes, py_encode sc "S" v = Some bytes /\ length bytes = 7%nat /\
    map (fun k => py_decode sc "S" (firstn k bytes)) [0;1;2;3;4;5;6]%nat
    = repeat (Some (Raise Overrun)) 7.
Proof. eexists. split; [vm_compute; reflexivity|]. split; vm_compute; reflexivity. Qed.

(* ---- the bit buffer of serde.py itself (gen/PyBuffer.v, translated from class _Buffer on every run) ---- *)

(* read_word raises exactly when fewer than m bits are left, whatever the cursor and the buffer; otherwise it returns the
   value of the next m bits and advances by m *)
Theorem buffer_read_word_overruns_exactly_when_short :
  forall buf a m,
    py_read_word (mk buf (Z.of_nat a)) (Z.of_nat m) =
    match Wire.read_word m (unread buf a) with
    | Ok (z, rest) => POk (mk buf (Z.of_nat (a + m)), z)
    | Raise _ => PRaise PyValueError
    end
    /\ (forall z rest, Wire.read_word m (unread buf a) = Ok (z, rest) -> rest = unread buf (a + m)).
Proof. exact read_word_refines. Qed.
Print Assumptions buffer_read_word_overruns_exactly_when_short.

(* read_bytes(k) (strings, f32, f64) raises exactly when fewer than 8k bits are left *)
Theorem buffer_read_bytes_overruns_exactly_when_short :
  forall buf a k, (a <= 8 * length buf)%nat ->
    py_read_bytes (mk buf (Z.of_nat a)) (Z.of_nat k) =
    if Nat.leb (a + 8 * k) (8 * length buf)
    then POk (mk buf (Z.of_nat (a + 8 * k)), map (byte_at buf a) (seq 0 k))
    else PRaise PyValueError.
Proof. exact read_bytes_refines. Qed.
Print Assumptions buffer_read_bytes_overruns_exactly_when_short.

Example c16_buffer_nonvacuous :
  py_read_bytes (mk [1; 2; 3] 4) 3 = PRaise PyValueError /\ py_read_bytes (mk [1; 2; 3] 4) 2 = POk (mk [1; 2; 3] 20, [32; 48]).
Proof. split; vm_compute; reflexivity. Qed.

(* ---- nothing is fabricated: whenever the decoder returns a value - on ANY input, canonical or not - the bits it consumed
   were there (what is left plus the least the type needs is at most what was given) ---- *)
Theorem decode_never_reads_beyond_input :
  forall t bs v r, py_dec t bs = Ok (v, r) -> (length r + min_bits t <= length bs)%nat.
Proof. exact (gdec_consumes py_sdec). Qed.
Print Assumptions decode_never_reads_beyond_input.

(* the executable decoder the correspondence evaluates on corrupted input (announced counts capped at the bits left + 1) is
   the model decoder itself whenever dynamic-array elements occupy at least one bit *)
Theorem correspondence_decoder_is_the_model :
  forall t, dyn_positive t = true -> forall bs, gdec_capped py_sdec t bs = py_dec t bs.
Proof. exact (gdec_capped_is_gdec py_sdec). Qed.
Print Assumptions correspondence_decoder_is_the_model.

(* ---- serde.py END TO END (every function of the file translated from the source on every run): the translated decode() raises
   ValueError (the buffer's "buffer overrun") on every strict byte prefix of the encoding of every in-range value, and on ANY
   input it returns exactly what the model decoder returns - a value only when the model found every announced bit *)
Theorem source_prefix_raises :
  forall sc, NoDup (map sname (structs sc)) ->
  forall name t v bytes k fuel,
    resolve sc name = Some t -> uniq t -> (depth t <= S fuel)%nat -> has_type t v = true ->
    py_encode sc name v = Some bytes -> (k < length bytes)%nat ->
    PyDispatch.py_decode fuel sc name (firstn k bytes) = PRaise PyValueError.
Proof. exact translated_prefix_raises. Qed.
Print Assumptions source_prefix_raises.

Theorem source_decode_is_the_model_on_any_input :
  forall sc, NoDup (map sname (structs sc)) ->
  forall name t data fuel,
    resolve sc name = Some t -> uniq t -> (depth t <= S fuel)%nat -> Forall byte_ok data ->
    exists o, py_decode sc name data = Some o /\
              PyDispatch.py_decode fuel sc name data = match o with Ok v => POk (embed t v) | Raise e => PRaise (exn_py e) end.
Proof. exact translated_decode_is_model. Qed.
Print Assumptions source_decode_is_the_model_on_any_input.

Example c16_source_nonvacuous :
  NoDup (map sname (structs ex_sc)) /\ resolve ex_sc "M" = Some ex_t /\ uniq ex_t /\ repr ex_t ex_v = true /\
  (depth ex_t <= S 8)%nat /\ has_type_gen py_okS ex_t ex_v = true.
Proof. exact hypotheses_nonvacuous. Qed.

(* ---- the look-ups the translated codec calls (FcpV2.get_struct / get_enum, Enum.get_packed_size: translated from specs/v2.py and
   specs/enum.py on every run, gen/PySpecs.v) are the functions its run-time library assumes; only the float log2 inside
   get_packed_size stays an assumption (py_floor_log2_plus1) ---- *)
Theorem source_lookups_are_the_library :
  forall t name,
    (PySpecs.py_FcpV2_get_struct t name = POk (find (fun s => String.eqb (sname s) name) (t_structs t)) /\
     py_get_struct (schema_of t) name = match find (fun s => String.eqb (sname s) name) (t_structs t) with Some s => POk s | None => PRaise PyUnwrapError end) /\
    (PySpecs.py_FcpV2_get_enum t name = POk (find (fun e => String.eqb (ename e) name) (t_enums t)) /\
     py_get_enum (schema_of t) name = match find (fun e => String.eqb (ename e) name) (t_enums t) with Some e => POk e | None => PRaise PyUnwrapError end).
Proof. intros t name. split; [apply get_struct_is_library|apply get_enum_is_library]. Qed.
Print Assumptions source_lookups_are_the_library.

Theorem source_enum_width_is_the_library :
  forall e, Forall (fun v => 0 <= v) (map snd (evals e)) -> PySpecs.py_Enum_get_packed_size e = POk (enum_packed_size e).
Proof. exact get_packed_size_is_model. Qed.
Print Assumptions source_enum_width_is_the_library.
