(* C16 — the Python decoder detects truncated input.  Statements only. *)
From Coq Require Import String ZArith List Bool.
From FcpV Require Import Base.Bits Schema.Types Wire.Wire Wire.WireProofs Py.PySerde Py.PySerdeProofs.
Import ListNotations.
Open Scope Z_scope.

(* every strict byte prefix (each byte boundary k) of the encoding of every
   in-range value of every schema raises the decoder's overrun error *)
Theorem decode_prefix_fails :
  forall sc name t v bytes k,
    resolve sc name = Some t -> has_type t v = true ->
    py_encode sc name v = Some bytes -> (k < length bytes)%nat ->
    py_decode sc name (firstn k bytes) = Some (Raise Overrun).
Proof. exact py_decode_prefix_fails_lemma. Qed.
Print Assumptions decode_prefix_fails.

(* bit-level form: any strict bit prefix of a canonical encoding overruns,
   at any type (hence at any nesting depth and any cursor position) *)
Theorem decode_bit_prefix_fails :
  forall t v bs p,
    has_type t v = true -> wire t v = Some bs -> sprefix p bs ->
    py_dec t p = Raise Overrun.
Proof.
  intros t v bs p Hty He Hp.
  exact (proj2 (gdec_wire py_sdec t v bs (has_type_py_weaken t v Hty) He) p Hp).
Qed.
Print Assumptions decode_bit_prefix_fails.

Example c16_nonvacuous :
  let sc := {| structs := [ {| sname := "S"; sfields := [ {| fname := "a"; fid := 0; fty := SU 4; funit := None |};
                                                         {| fname := "s"; fid := 1; fty := SStr; funit := None |} ] |} ];
               enums := [] |} in
  let v := VStruct [("a"%string, VInt 9); ("s"%string, VStr [104; 105])] in
  exists bytes, py_encode sc "S" v = Some bytes /\ length bytes = 7%nat /\
    map (fun k => py_decode sc "S" (firstn k bytes)) [0;1;2;3;4;5;6]%nat
    = repeat (Some (Raise Overrun)) 7.
Proof. eexists. split; [vm_compute; reflexivity|]. split; vm_compute; reflexivity. Qed.
