(* C10 — code generation is gated by verification.  Statements only. *)
From Coq Require Import String ZArith List Bool.
From FcpV Require Import Schema.Types Layout.Packed Verifier.Checks Codegen.Pipeline Codegen.PipelineProofs.
From FcpV Require Py.BufferLib Verifier.DriverLib Verifier.DriverProofs gen.PyVerifier.
From FcpV Require Codegen.CodegenLib Codegen.CodegenProofs gen.PyCodegen.
Import ListNotations.

(* whichever check rejects (any category, any position, general or plug-in:
   the verdict is the one of the verifier model of C09), the command returns
   that error and the output directory is exactly what it was *)
Theorem rejected_writes_nothing :
  forall pl t out fs c, verify pl t = VErr c -> manager_generate pl t out fs = (Ret (RErr c), fs).
Proof. exact rejected_writes_nothing_lemma. Qed.
Print Assumptions rejected_writes_nothing.

Theorem raising_check_writes_nothing :
  forall pl t out fs, verify pl t = VRaise -> manager_generate pl t out fs = (Exn, fs).
Proof. exact raising_check_writes_nothing_lemma. Qed.
Print Assumptions raising_check_writes_nothing.

(* when all checks pass, exactly the returned files are written, with exactly
   the returned contents (the C plug-in first removes stale *.h / *.c) *)
Theorem accepted_writes_exactly :
  forall pl t files fs, verify pl t = VOk ->
    manager_generate pl t (PFiles files) fs = (Ret (ROk tt), fs_write_all files (preclean pl fs)).
Proof. exact accepted_writes_exactly_lemma. Qed.
Print Assumptions accepted_writes_exactly.

Theorem accepted_plugin_raises_writes_nothing :
  forall pl t fs, verify pl t = VOk -> manager_generate pl t PRaise fs = (Exn, fs).
Proof. exact accepted_plugin_raises_lemma. Qed.
Print Assumptions accepted_plugin_raises_writes_nothing.

Theorem ok_only_if_verified :
  forall pl t out fs fs', manager_generate pl t out fs = (Ret (ROk tt), fs') -> verify pl t = VOk.
Proof. exact ok_only_if_verified_lemma. Qed.
Print Assumptions ok_only_if_verified.

(* the written directory as a finite map: other names keep their content *)
Theorem other_files_untouched :
  forall files fs name, ~ In name (map fst files) -> fs_get name (fs_write_all files fs) = fs_get name fs.
Proof. exact untouched_names_keep_content. Qed.
Print Assumptions other_files_untouched.

(* the verdict that gates generation is the source's: the translated class Verifier (gen/PyVerifier.v), run over the translated checks
   on the table that make_general_verifier() + the plug-in's register_checks build, returns `verify pl t` - the verdict
   manager_generate branches on *)
Theorem source_gate_verdict_is_the_model :
  forall pl t, exists checks,
    DriverProofs.registered pl = BufferLib.POk checks /\
    PyVerifier.py_verify checks t = DriverProofs.vres_of (verify pl t).
Proof. exact DriverProofs.driver_is_model. Qed.
Print Assumptions source_gate_verdict_is_the_model.

(* ---- src/fcp/codegen.py itself: GeneratorManager.generate, CodeGenerator.gen, handle_result and _handle_file are translated from the
   source on every run (gen/PyCodegen.v) into a program over the output directory; that program IS manager_generate, so every theorem
   above is about the source ---- *)
Theorem source_manager_generate_is_the_model :
  forall pl t out fs, PyCodegen.py_manager_generate pl t out fs = manager_generate pl t out fs.
Proof. exact CodegenProofs.manager_generate_is_model. Qed.
Print Assumptions source_manager_generate_is_the_model.

(* the gate, about the translated source: rejected or raising verification leaves the directory as it was and hands the error on; an
   accepted schema writes exactly the returned files; a raising plug-in writes nothing *)
Theorem source_generation_is_gated :
  forall pl t out fs,
    match verify pl t with
    | VErr c => PyCodegen.py_manager_generate pl t out fs = (Ret (RErr c), fs)
    | VRaise => PyCodegen.py_manager_generate pl t out fs = (Exn, fs)
    | VOk => match out with
             | PFiles files => PyCodegen.py_manager_generate pl t out fs = (Ret (ROk tt), fs_write_all files (preclean pl fs))
             | PRaise => PyCodegen.py_manager_generate pl t out fs = (Exn, fs)
             end
    end.
Proof. exact CodegenProofs.source_gate. Qed.
Print Assumptions source_generation_is_gated.

Example c10_nonvacuous :
  let t := {| t_structs := [ {| sname := "S"; sfields := [] |} ]; t_enums := []; t_impls := [];
              t_services := []; t_devices := [] |} in
  manager_generate Dbc t (PFiles [("default.fcp"%string, 7%Z)]) [("old.h"%string, 1%Z)]
  = (Ret (RErr EmptyStruct), [("old.h"%string, 1%Z)]).
Proof. vm_compute. reflexivity. Qed.
