#!/bin/bash
# Re-checks every compiled Props module and everything it depends on with Coq's independent checker and prints the axioms they
# rely on (expected: <none>). Takes about a minute. Run ./check --setup first so that the .vo files exist.
cd "$(dirname "$0")/coq" || exit 2
mods=$(ls Props/*.vo | sed 's/\.vo$//; s/\//./; s/^/FcpV./' | tr '\n' ' ')
exec coqchk -silent -o -Q . FcpV $mods
